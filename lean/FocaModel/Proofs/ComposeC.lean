/-
  Composition for invariants that also look at the effects emitted so far (`P : State → List Effect → Prop`):
  the relation between membership and the notifications that report it. Membership and its notifications
  change together only inside two units (`apply_update`, `apply_existing_if` + `handle_apply_summary`), which
  are leaves here; everything else either keeps the member list or emits something that is not a membership
  notification.
-/
import FocaModel.Proofs.Compose
namespace Foca

structure PresC {α} (P : State → List Effect → Prop) (m : M α) : Prop where
  run : ∀ c, P c.s c.eff → match m c with
    | .ok _ c' => P c'.s c'.eff
    | .err _ c' => P c'.s c'.eff
    | .stuck _ => True

section
variable {P : State → List Effect → Prop}

theorem PresC.pure {α} (a : α) : PresC P (pure a : M α) := ⟨fun _ h => h⟩

theorem PresC.bind {α β} {m : M α} {f : α → M β} (hm : PresC P m) (hf : ∀ a, PresC P (f a)) : PresC P (m >>= f) := by
  constructor
  intro c hc
  have := hm.run c hc
  simp only [bind_run]
  cases hmc : m c with
  | stuck x => trivial
  | err e c' => rw [hmc] at this; exact this
  | ok a c' =>
    rw [hmc] at this
    exact (hf a).run c' this

theorem PresC.getS : PresC P Foca.getS := ⟨fun _ h => h⟩
theorem PresC.throwE {α} (e : ErrKind) : PresC P (Foca.throwE e : M α) := ⟨fun _ h => h⟩
theorem PresC.panicAt {α} (p : PanicSite) : PresC P (Foca.panicAt p : M α) := ⟨fun _ _ => trivial⟩
theorem PresC.badOracle {α} (w : String) : PresC P (Foca.badOracle w : M α) := ⟨fun _ _ => trivial⟩

theorem PresC.ite {α} {c : Prop} [Decidable c] {a b : M α} (ha : PresC P a) (hb : PresC P b) :
    PresC P (if c then a else b) := by
  split <;> assumption

theorem PresC.of_frame {α} {m : M α} (h : Frame m) : PresC P m := by
  constructor
  intro c hc
  have := h c
  cases hm : m c with
  | stuck x => trivial
  | err e c' => rw [hm] at this; simp only at this ⊢; rw [this.1, this.2]; exact hc
  | ok a c' => rw [hm] at this; simp only at this ⊢; rw [this.1, this.2]; exact hc

theorem PresC.drawIdx (k : DrawKind) (n : Nat) : PresC P (Foca.drawIdx k n) := PresC.of_frame (drawIdx_frame k n)

theorem PresC.nextPick : PresC P Foca.nextPick := by
  constructor
  intro c hc
  have := nextPick_spec c
  cases h : Foca.nextPick c with
  | stuck x => trivial
  | err e c' => rw [h] at this; exact this.elim
  | ok a c' => rw [h] at this; simp only at this ⊢; rw [this.1, this.2]; exact hc

theorem PresC.attempt {m : M Unit} (hm : PresC P m) : PresC P (Foca.attempt m) := by
  constructor
  intro c hc
  have := hm.run c hc
  unfold Foca.attempt
  cases h : m c with
  | stuck x => trivial
  | err e c' => rw [h] at this; exact this
  | ok a c' => rw [h] at this; exact this

theorem PresC.chooseLoop (w : Nat) (pick : Member → Bool) (l out : List Member) (seen : Nat) :
    PresC P (Foca.chooseLoop w pick l out seen) := by
  constructor
  intro c hc
  have := chooseLoop_spec w pick l out seen c
  cases h : Foca.chooseLoop w pick l out seen c with
  | stuck x => trivial
  | err e c' => rw [h] at this; exact this.elim
  | ok a c' => rw [h] at this; simp only; rw [this.1, this.2.1]; exact hc

end

/-! knowing the current state and effects exactly (for units whose steps break the invariant in between) -/

structure PresCAt {α} (P : State → List Effect → Prop) (s0 : State) (eff0 : List Effect) (m : M α) : Prop where
  run : ∀ c, c.s = s0 → c.eff = eff0 → match m c with
    | .ok _ c' => P c'.s c'.eff
    | .err _ c' => P c'.s c'.eff
    | .stuck _ => True

section
variable {P : State → List Effect → Prop}

theorem PresC.getS_at {β} {f : State → M β} (h : ∀ s0 eff0, P s0 eff0 → PresCAt P s0 eff0 (f s0)) :
    PresC P (Foca.getS >>= f) :=
  ⟨fun c hc => by simp only [bind_run, getS_run]; exact (h c.s c.eff hc).run c rfl rfl⟩

theorem PresCAt.getS_bind {β} {s0 : State} {eff0 : List Effect} {f : State → M β}
    (h : PresCAt P s0 eff0 (f s0)) : PresCAt P s0 eff0 (Foca.getS >>= f) :=
  ⟨fun c h1 h2 => by simp only [bind_run, getS_run]; rw [h1]; exact h.run c h1 h2⟩

theorem PresCAt.of_presC {α} {s0 : State} {eff0 : List Effect} {m : M α} (h0 : P s0 eff0) (h : PresC P m) :
    PresCAt P s0 eff0 m :=
  ⟨fun c h1 h2 => h.run c (by rw [h1, h2]; exact h0)⟩

theorem PresCAt.modS_bind {β} {s0 : State} {eff0 : List Effect} {g : State → State} {k : M β}
    (h : PresCAt P (g s0) eff0 k) : PresCAt P s0 eff0 (Foca.modS g >>= fun _ => k) :=
  ⟨fun c h1 h2 => by simp only [bind_run, modS_run]; exact h.run _ (by simp only; rw [h1]) h2⟩

theorem PresCAt.emit_bind {β} {s0 : State} {eff0 : List Effect} {e : Effect} {k : M β}
    (h : PresCAt P s0 (eff0 ++ [e]) k) : PresCAt P s0 eff0 (Foca.emit e >>= fun _ => k) :=
  ⟨fun c h1 h2 => by simp only [bind_run, emit_run]; exact h.run _ h1 (by simp only; rw [h2])⟩

theorem PresCAt.ite {α} {s0 : State} {eff0 : List Effect} {c : Prop} [Decidable c] {a b : M α}
    (ha : c → PresCAt P s0 eff0 a) (hb : ¬ c → PresCAt P s0 eff0 b) : PresCAt P s0 eff0 (if c then a else b) := by
  split
  · exact ha ‹_›
  · exact hb ‹_›

theorem PresCAt.panicAt {α} {s0 : State} {eff0 : List Effect} (p : PanicSite) :
    PresCAt P s0 eff0 (Foca.panicAt p : M α) := ⟨fun _ _ _ => trivial⟩

end

macro "presc_step" : tactic => `(tactic| first
  | exact PresC.pure _
  | exact PresC.getS
  | exact PresC.throwE _
  | exact PresC.panicAt _
  | exact PresC.badOracle _
  | exact PresC.drawIdx _ _
  | exact PresC.nextPick
  | exact PresC.chooseLoop _ _ _ _ _
  | with_reducible apply PresC.bind
  | with_reducible apply PresC.ite
  | (intro _; try dsimp only)
  | split)

macro "presc" : tactic => `(tactic| repeat' presc_step)

/-- notifications that report membership -/
def memberNote : Effect → Bool
  | .notify (.up _) => true
  | .notify (.down _) => true
  | .notify (.rename _ _) => true
  | _ => false

/-- the timers of the probe loop -/
def probeTimer : Effect → Bool
  | .timer _ (.probe _) => true
  | _ => false

/-- the recurring loops: the probe round and the three periodic tasks -/
def Timer.isLoop : Timer → Bool
  | .probe _ => true
  | .pa _ => true
  | .pad _ => true
  | .pg _ => true
  | _ => false

/-- which loop a timer belongs to (as a number: 0 probe, 1 announce, 2 announce-to-down, 3 gossip) -/
def Timer.loopNo : Timer → Option Nat
  | .probe _ => some 0
  | .pa _ => some 1
  | .pad _ => some 2
  | .pg _ => some 3
  | _ => none

def loopTimer : Effect → Bool
  | .timer _ t => t.isLoop
  | _ => false

/-- `f` keeps the member list, the connection state, the timer token, the (ghost) epoch and the configuration —
    everything the effect-aware invariants look at; it may write anything else -/
def Keep4 (f : State → State) : Prop :=
  ∀ s, (f s).ms = s.ms ∧ (f s).conn = s.conn ∧ (f s).token = s.token ∧ (f s).epoch = s.epoch ∧ (f s).cfg = s.cfg

/-- … and the probe -/
def Keep5 (f : State → State) : Prop :=
  ∀ s, (f s).ms = s.ms ∧ (f s).conn = s.conn ∧ (f s).token = s.token ∧ (f s).epoch = s.epoch ∧ (f s).cfg = s.cfg ∧
    (f s).probe = s.probe

theorem Keep5.keep4 {f : State → State} (h : Keep5 f) : Keep4 f :=
  fun s => ⟨(h s).1, (h s).2.1, (h s).2.2.1, (h s).2.2.2.1, (h s).2.2.2.2.1⟩

/-- a write to the probe that keeps its target or drops it, and never takes back that the indirect stage was
    reached (everything but `Probe::start`) -/
def ProbeMono (g : Probe → Probe) : Prop :=
  ∀ p, (g p).direct = none ∨ ((g p).direct = p.direct ∧ (p.reached = true → (g p).reached = true))

theorem ProbeMono.clear : ProbeMono Probe.clear := fun _ => Or.inl rfl

theorem ProbeMono.takeFailed : ProbeMono (fun p => p.takeFailed.2) := by
  intro p
  show p.takeFailed.2.direct = none ∨ (p.takeFailed.2.direct = p.direct ∧ (p.reached = true → p.takeFailed.2.reached = true))
  unfold Probe.takeFailed
  split
  · exact Or.inl rfl
  · exact Or.inr ⟨rfl, id⟩

theorem ProbeMono.receiveAck (src : Id) (n : Nat) : ProbeMono (fun p => p.receiveAck src n) := by
  intro p
  show (p.receiveAck src n).direct = none ∨ ((p.receiveAck src n).direct = p.direct ∧ (p.reached = true → (p.receiveAck src n).reached = true))
  unfold Probe.receiveAck
  split <;> exact Or.inr ⟨rfl, id⟩

theorem ProbeMono.receiveIndirectAck (src : Id) (n : Nat) : ProbeMono (fun p => p.receiveIndirectAck src n) := by
  intro p
  show (p.receiveIndirectAck src n).direct = none ∨
    ((p.receiveIndirectAck src n).direct = p.direct ∧ (p.reached = true → (p.receiveIndirectAck src n).reached = true))
  unfold Probe.receiveIndirectAck
  split
  · exact Or.inr ⟨rfl, id⟩
  · split <;> exact Or.inr ⟨rfl, id⟩

/-- leaf obligations of an effect-aware invariant. `special` marks the effects the invariant accounts for (they
    are emitted only inside the unit leaves); the four connection-state transitions and the two units in which
    membership and its notifications change together are leaves. -/
structure LeavesC (E : Env) (P : State → List Effect → Prop) (special : Effect → Bool) : Prop where
  /-- only membership notifications and probe timers may be special -/
  plain : ∀ e, memberNote e = false → loopTimer e = false → special e = false
  keep : ∀ f, Keep4 f → PresC P (modS f)
  emitOther : ∀ e, special e = false → PresC P (emit e)
  removeDown : ∀ id, PresC P (modS fun s => { s with ms := removeIfDown s.ms id })
  membersNext : PresC P membersNext
  sendMessage : ∀ d m, PresC P (sendMessage E d m)
  applyUpdate : ∀ u b, PresC P (applyUpdate E u b)
  applyExistingReport : ∀ u cond, PresC P (applyExistingReport E u cond)
  reset : PresC P Foca.reset
  becomeUndead : PresC P Foca.becomeUndead
  /-- going idle / becoming active, with the check of the connection state that guards them -/
  adjustConnectionState : PresC P (Foca.adjustConnectionState E)
  setConfig : ∀ cfg, PresC P (Foca.setConfig cfg)

/-- the same with the writes to the probe told apart: `keep` only for writes that leave the probe alone, one leaf
    for the probe writes that keep or drop the target, and `Probe::start` a hypothesis of the two lemmas that
    reach it — for invariants that look at the probe -/
structure LeavesP (E : Env) (P : State → List Effect → Prop) (special : Effect → Bool) : Prop where
  plain : ∀ e, memberNote e = false → loopTimer e = false → special e = false
  keep : ∀ f, Keep5 f → PresC P (modS f)
  probeMono : ∀ g : Probe → Probe, ProbeMono g → PresC P (modS fun s => { s with probe := g s.probe })
  emitOther : ∀ e, special e = false → PresC P (emit e)
  removeDown : ∀ id, PresC P (modS fun s => { s with ms := removeIfDown s.ms id })
  membersNext : PresC P membersNext
  sendMessage : ∀ d m, PresC P (sendMessage E d m)
  applyUpdate : ∀ u b, PresC P (applyUpdate E u b)
  applyExistingReport : ∀ u cond, PresC P (applyExistingReport E u cond)
  reset : PresC P Foca.reset
  becomeUndead : PresC P Foca.becomeUndead
  adjustConnectionState : PresC P (Foca.adjustConnectionState E)
  setConfig : ∀ cfg, PresC P (Foca.setConfig cfg)

theorem LeavesC.toP {E : Env} {P : State → List Effect → Prop} {special : Effect → Bool} (L : LeavesC E P special) :
    LeavesP E P special where
  plain := L.plain
  keep := fun f h => L.keep f h.keep4
  probeMono := fun g _ => L.keep _ (fun _ => ⟨rfl, rfl, rfl, rfl, rfl⟩)
  emitOther := L.emitOther
  removeDown := L.removeDown
  membersNext := L.membersNext
  sendMessage := L.sendMessage
  applyUpdate := L.applyUpdate
  applyExistingReport := L.applyExistingReport
  reset := L.reset
  becomeUndead := L.becomeUndead
  adjustConnectionState := L.adjustConnectionState
  setConfig := L.setConfig

/-- a read followed by a write computed from what was read -/
theorem PresC.getS_modS_bind {P : State → List Effect → Prop} {β} {g : State → State → State} {k : State → M β}
    (h1 : ∀ s eff, P s eff → P (g s s) eff) (h2 : ∀ s, PresC P (k s)) :
    PresC P (Foca.getS >>= fun s => Foca.modS (g s) >>= fun _ => k s) :=
  ⟨fun c hc => by
    simp only [bind_run, getS_run, modS_run]
    exact (h2 c.s).run _ (h1 c.s c.eff hc)⟩

/-- a leaf about `modS g`, read at one state -/
theorem PresC.modS_at {P : State → List Effect → Prop} {g : State → State} (h : PresC P (Foca.modS g)) (s : State)
    (eff : List Effect) (hs : P s eff) : P (g s) eff :=
  h.run ⟨s, eff, default⟩ hs

section
variable {E : Env} {P : State → List Effect → Prop} {special : Effect → Bool} (L : LeavesP E P special)
include L

theorem LeavesP.sendAll (msg : Msg) (ds : List Id) : PresC P (Foca.sendAll E msg ds) := by
  induction ds with
  | nil => unfold Foca.sendAll; exact PresC.pure _
  | cons d rest ih =>
    unfold Foca.sendAll
    exact PresC.bind (L.sendMessage d msg) (fun _ => ih)

theorem LeavesP.chooseAndSend (n : Nat) (msg : Msg) : PresC P (Foca.chooseAndSend E n msg) := by
  unfold Foca.chooseAndSend
  presc
  exact L.sendAll _ _

theorem LeavesP.gossip : PresC P (Foca.gossip E) := by
  unfold Foca.gossip
  presc
  exact L.chooseAndSend _ _

theorem LeavesP.announceToDown (n : Nat) : PresC P (Foca.announceToDown E n) := by
  unfold Foca.announceToDown
  presc
  exact L.sendAll _ _

theorem LeavesP.addUpdate (m : Member) : PresC P (Foca.addUpdate E m) := by
  unfold Foca.addUpdate
  exact L.keep _ (fun _ => ⟨rfl, rfl, rfl, rfl, rfl, rfl⟩)

theorem LeavesP.changeIdentity (i : Id) (p : Policy) : PresC P (Foca.changeIdentity E i p) := by
  unfold Foca.changeIdentity
  presc
  all_goals first
    | exact L.keep _ (fun _ => ⟨rfl, rfl, rfl, rfl, rfl, rfl⟩)
    | exact L.reset
    | exact L.addUpdate _
    | exact L.gossip

theorem LeavesP.attemptRejoin : PresC P (Foca.attemptRejoin E) := by
  unfold Foca.attemptRejoin
  presc
  all_goals first
    | exact L.changeIdentity _ _
    | exact L.emitOther _ (L.plain _ rfl rfl)

theorem LeavesP.handleSelfUpdate (inc : Nat) (st : St) : PresC P (Foca.handleSelfUpdate E inc st) := by
  unfold Foca.handleSelfUpdate
  presc
  all_goals first
    | exact L.attemptRejoin
    | exact L.becomeUndead
    | exact L.gossip
    | exact L.keep _ (fun _ => ⟨rfl, rfl, rfl, rfl, rfl, rfl⟩)

theorem LeavesP.applyOne (u : Member) (b : Bool) : PresC P (Foca.applyOne E u b) := by
  unfold Foca.applyOne
  presc
  all_goals first
    | exact L.handleSelfUpdate _ _
    | exact L.applyUpdate _ _

theorem LeavesP.applyLoop (b : Bool) (us : List Member) : PresC P (Foca.applyLoop E b us) := by
  induction us with
  | nil => unfold Foca.applyLoop; exact PresC.pure _
  | cons u rest ih =>
    unfold Foca.applyLoop
    exact PresC.bind (L.applyOne u b) (fun _ => ih)

theorem LeavesP.applyMany (us : List Member) (b : Bool) : PresC P (Foca.applyMany E us b) := by
  unfold Foca.applyMany
  presc
  · exact L.applyLoop _ _
  · exact L.adjustConnectionState

theorem LeavesP.broadcastLoop (ds : List Id) : PresC P (Foca.broadcastLoop E ds) := by
  induction ds with
  | nil => unfold Foca.broadcastLoop; exact PresC.pure _
  | cons d rest ih =>
    unfold Foca.broadcastLoop
    presc
    · exact L.sendMessage _ _
    · exact ih

theorem LeavesP.broadcastApi : PresC P (Foca.broadcastApi E) := by
  unfold Foca.broadcastApi
  presc
  exact L.broadcastLoop _

theorem LeavesP.leaveCluster : PresC P (Foca.leaveCluster E) := by
  unfold Foca.leaveCluster
  presc
  · exact L.addUpdate _
  · exact L.gossip
  · exact L.becomeUndead

theorem LeavesP.addBroadcast (d : Bytes) : PresC P (Foca.addBroadcast E d) := by
  unfold Foca.addBroadcast
  presc
  all_goals exact L.keep _ (fun _ => ⟨rfl, rfl, rfl, rfl, rfl, rfl⟩)

theorem LeavesP.reuseDownIdentity : PresC P Foca.reuseDownIdentity := by
  unfold Foca.reuseDownIdentity
  presc
  exact L.reset

theorem LeavesP.probeSuspectFailed : PresC P (Foca.probeSuspectFailed E) := by
  unfold Foca.probeSuspectFailed
  refine PresC.getS_modS_bind (g := fun s s' => { s' with probe := s.probe.takeFailed.2 })
    (fun s eff hs => PresC.modS_at (L.probeMono _ ProbeMono.takeFailed) s eff hs) (fun s => ?_)
  presc
  all_goals first
    | exact L.applyExistingReport _ _
    | exact L.emitOther _ (L.plain _ rfl rfl)

theorem LeavesP.probeStartNext (hstart : ∀ m, PresC P (modS fun s => { s with probe := s.probe.start m })) :
    PresC P (Foca.probeStartNext E) := by
  unfold Foca.probeStartNext
  presc
  all_goals first
    | exact L.membersNext
    | exact hstart _
    | exact L.sendMessage _ _
    | exact L.emitOther _ (L.plain _ rfl rfl)

theorem LeavesP.pingReqLoop (probed : Id) (ds : List Id) : PresC P (Foca.pingReqLoop E probed ds) := by
  induction ds with
  | nil => unfold Foca.pingReqLoop; exact PresC.pure _
  | cons d rest ih =>
    unfold Foca.pingReqLoop
    presc
    · exact L.probeMono (fun p => { p with indirect := p.indirect ++ [_] }) (fun _ => Or.inr ⟨rfl, id⟩)
    · exact L.sendMessage _ _
    · exact ih

/-- the probe branch of `handle_timer`, for an invariant that lets probe timers be re-armed freely -/
theorem LeavesP.probeBranch (tok : Nat) (hstart : ∀ m, PresC P (modS fun s => { s with probe := s.probe.start m }))
    (hemit : ∀ p t', t'.loopNo = some 0 → PresC P (emit (.timer p t'))) : PresC P (Foca.handleTimer E (.probe tok)) := by
  unfold Foca.handleTimer
  presc
  unfold Foca.probeRandomMember
  presc
  all_goals first
    | exact L.probeMono _ ProbeMono.clear
    | exact L.probeSuspectFailed
    | exact L.probeStartNext hstart
    | exact hemit _ _ rfl
    | exact L.emitOther _ (L.plain _ rfl rfl)

/-- the branch of `handle_timer` for a periodic task -/
theorem LeavesP.periodicBranch (t : Timer) (ht : t.isLoop = true) (hnp : t.loopNo ≠ some 0)
    (hemit : ∀ p t', t'.loopNo = t.loopNo → PresC P (emit (.timer p t'))) : PresC P (Foca.handleTimer E t) := by
  cases t with
  | probe tok => exact absurd rfl hnp
  | pa tok =>
    unfold Foca.handleTimer
    presc
    all_goals first
      | exact hemit _ _ rfl
      | exact L.chooseAndSend _ _
  | pad tok =>
    unfold Foca.handleTimer
    presc
    all_goals first
      | exact hemit _ _ rfl
      | exact L.announceToDown _
  | pg tok =>
    unfold Foca.handleTimer
    presc
    all_goals first
      | exact hemit _ _ rfl
      | exact L.chooseAndSend _ _
  | indirect p tok => simp [Timer.isLoop] at ht
  | s2d m inc tok => simp [Timer.isLoop] at ht
  | rm m => simp [Timer.isLoop] at ht

/-- the branch of `handle_timer` for a loop timer `t`, for an invariant that lets the timers of that loop be
    re-armed freely -/
theorem LeavesP.loopBranch (t : Timer) (ht : t.isLoop = true)
    (hstart : ∀ m, PresC P (modS fun s => { s with probe := s.probe.start m }))
    (hemit : ∀ p t', t'.loopNo = t.loopNo → PresC P (emit (.timer p t'))) : PresC P (Foca.handleTimer E t) := by
  by_cases hp : t.loopNo = some 0
  · cases t with
    | probe tok => exact L.probeBranch tok hstart (fun p t' h => hemit p t' h)
    | pa tok => simp [Timer.loopNo] at hp
    | pad tok => simp [Timer.loopNo] at hp
    | pg tok => simp [Timer.loopNo] at hp
    | indirect p tok => simp [Timer.isLoop] at ht
    | s2d m inc tok => simp [Timer.isLoop] at ht
    | rm m => simp [Timer.isLoop] at ht
  · exact L.periodicBranch t ht hp hemit

/-- `handle_timer`; the branches of the loop timers are a hypothesis -/
theorem LeavesP.handleTimer (t : Timer) (hloop : t.isLoop = true → PresC P (Foca.handleTimer E t)) :
    PresC P (Foca.handleTimer E t) := by
  cases t with
  | probe tok => exact hloop rfl
  | pa tok => exact hloop rfl
  | pad tok => exact hloop rfl
  | pg tok => exact hloop rfl
  | indirect p tok =>
    unfold Foca.handleTimer
    presc
    all_goals first
      | exact L.probeMono (fun p => { p with reached := true }) (fun _ => Or.inr ⟨rfl, fun _ => rfl⟩)
      | exact L.pingReqLoop _ _
  | s2d m inc tok =>
    unfold Foca.handleTimer
    presc
    all_goals first
      | exact L.applyExistingReport _ _
      | exact L.adjustConnectionState
      | exact L.sendMessage _ _
  | rm m =>
    unfold Foca.handleTimer
    presc
    exact L.removeDown _

theorem LeavesP.customLoop (sender : Option Id) (fuel : Nat) (data : Bytes) : PresC P (Foca.customLoop E sender fuel data) := by
  induction fuel generalizing data with
  | zero => unfold Foca.customLoop; exact PresC.throwE _
  | succ f ih =>
    unfold Foca.customLoop
    presc
    all_goals first
      | exact L.keep _ (fun _ => ⟨rfl, rfl, rfl, rfl, rfl, rfl⟩)
      | exact ih _

theorem LeavesP.handleCustomBroadcasts (data : Bytes) (sender : Option Id) :
    PresC P (Foca.handleCustomBroadcasts E data sender) := by
  unfold Foca.handleCustomBroadcasts
  presc
  exact L.customLoop _ _ _

theorem LeavesP.reactToMessage (h : Header) : PresC P (Foca.reactToMessage E h) := by
  unfold Foca.reactToMessage
  presc
  all_goals first
    | exact L.probeMono (fun p => p.receiveAck _ _) (ProbeMono.receiveAck _ _)
    | exact L.probeMono (fun p => p.receiveIndirectAck _ _) (ProbeMono.receiveIndirectAck _ _)
    | exact L.sendMessage _ _
    | exact L.handleSelfUpdate _ _

theorem LeavesP.inactiveSender (h : Header) : PresC P (Foca.inactiveSender E h) := by
  unfold Foca.inactiveSender
  presc
  all_goals first
    | exact L.handleSelfUpdate _ _
    | exact L.sendMessage _ _

theorem LeavesP.replyStage (h : Header) (cres : Option ErrKind) : PresC P (Foca.replyStage E h cres) := by
  unfold Foca.replyStage
  presc
  exact L.reactToMessage _

theorem LeavesP.handleData (data : Bytes) : PresC P (Foca.handleData E data) := by
  unfold Foca.handleData
  presc
  all_goals first
    | exact L.applyUpdate _ _
    | exact L.inactiveSender _
    | exact L.applyMany _ _
    | exact PresC.attempt (L.handleCustomBroadcasts _ _)
    | exact L.replyStage _ _

theorem LeavesP.runOp (op : Op)
    (hloop : ∀ t, op = .timer t → t.isLoop = true → PresC P (Foca.handleTimer E t)) :
    PresC P (Foca.runOp E op) := by
  cases op <;> unfold Foca.runOp <;> presc
  all_goals first
    | exact L.handleTimer _ (fun h => hloop _ rfl h)
    | exact L.applyMany _ _
    | exact L.handleData _
    | exact L.sendMessage _ _
    | exact L.gossip
    | exact L.broadcastApi
    | exact L.leaveCluster
    | exact L.addBroadcast _
    | exact L.changeIdentity _ _
    | exact L.reuseDownIdentity
    | exact L.setConfig _

end

/-! the walk for `LeavesC` (invariants that do not look at the probe) -/

theorem LeavesC.loopBranch {E : Env} {P : State → List Effect → Prop} {special : Effect → Bool} (L : LeavesC E P special)
    (t : Timer) (ht : t.isLoop = true)
    (hemit : ∀ p t', t'.loopNo = t.loopNo → PresC P (emit (.timer p t'))) : PresC P (Foca.handleTimer E t) :=
  L.toP.loopBranch t ht (fun _ => L.keep _ (fun _ => ⟨rfl, rfl, rfl, rfl, rfl⟩)) hemit

theorem LeavesC.runOp {E : Env} {P : State → List Effect → Prop} {special : Effect → Bool} (L : LeavesC E P special)
    (op : Op) (hloop : ∀ t, op = .timer t → t.isLoop = true → PresC P (Foca.handleTimer E t)) :
    PresC P (Foca.runOp E op) := L.toP.runOp op hloop

end Foca
