/-
  The probe round trip, forwards: what a *successful* `handle_data` went through (run decomposition), a calm
  instance that is connected after handling a Ping has sent the Ack, an Ack that was handled answers the round it
  belongs to, and a probe round starts with a Ping to its target. Together with `C12H.evidence_suffices` this turns
  `RoundAnswered` — the timing premise of `C02S.calm_cluster_stays_calm` — into a statement about deliveries only.
-/
import FocaModel.Proofs.CalmInv
import FocaModel.Proofs.EvidenceInv
import FocaModel.Proofs.SendInv
import FocaModel.Proofs.GenInv
import FocaModel.Proofs.MsInv
namespace Foca
open Foca.C07 Foca.C07H

section
variable (E : Env)

/-- **Run decomposition.** A `handle_data` that returned `Ok` either ignored the datagram (not addressed to the
    instance), or took the inactive-sender branch, or went through: sender's header applied (`c1`), updates applied
    (`c2`), custom broadcasts attempted (`c3`), reply stage. -/
theorem handleData_ok (data : Bytes) (c c' : Ctx) (hrun : Foca.handleData E data c = .ok () c') :
    ∃ h rest, E.codec.decHeader data = some (h, rest) ∧
      ((Gen.acceptPayload c.s.id h.dst h.msg = false ∧ c' = c) ∨
       ∃ updates tail, parseSection E h rest = some (updates, tail) ∧
        ∃ act c1, Foca.applyUpdate E ⟨h.src, h.srcInc, .alive⟩ true c = .ok act c1 ∧
          ((act = false ∧ Foca.inactiveSender E h c1 = .ok () c') ∨
           (act = true ∧ ∃ c2 cres c3, Foca.applyMany E updates true c1 = .ok () c2 ∧
              Foca.attempt (Foca.handleCustomBroadcasts E tail (some h.src)) c2 = .ok cres c3 ∧
              Foca.replyStage E h cres c3 = .ok () c'))) := by
  unfold Foca.handleData at hrun
  simp only [bind_run, getS_run] at hrun
  by_cases h0 : data.length > c.s.cfg.mps
  · simp [h0] at hrun
  · simp only [h0, if_false] at hrun
    cases hdec : E.codec.decHeader data with
    | none => rw [hdec] at hrun; simp at hrun
    | some hr =>
      obtain ⟨h, rest⟩ := hr
      rw [hdec] at hrun
      simp only at hrun
      refine ⟨h, rest, rfl, ?_⟩
      by_cases h1 : (h.src == c.s.id || h.src.addr == c.s.id.addr) = true
      · simp [h1] at hrun
      · simp only [h1, Bool.false_eq_true, ↓reduceIte] at hrun
        by_cases h2 : (rest.length == Gen.trailingByteBad || h.msg == Msg.announce && decide (rest.length > 0)) = true
        · simp [h2] at hrun
        · simp only [h2, Bool.false_eq_true, ↓reduceIte] at hrun
          by_cases h3 : (!Gen.acceptPayload c.s.id h.dst h.msg) = true
          · left
            simp only [h3, ↓reduceIte, pure_run, R.ok.injEq, true_and] at hrun
            exact ⟨by simpa using h3, hrun.symm⟩
          · right
            simp only [h3, Bool.false_eq_true, ↓reduceIte] at hrun
            cases hparse : parseSection E h rest with
            | none => rw [hparse] at hrun; simp at hrun
            | some ut =>
              obtain ⟨updates, tail⟩ := ut
              rw [hparse] at hrun
              simp only [bind_run] at hrun
              refine ⟨updates, tail, rfl, ?_⟩
              cases hu : Foca.applyUpdate E ⟨h.src, h.srcInc, .alive⟩ true c with
              | stuck x => rw [hu] at hrun; simp at hrun
              | err e c1 => rw [hu] at hrun; simp at hrun
              | ok act c1 =>
                rw [hu] at hrun
                simp only at hrun
                refine ⟨act, c1, rfl, ?_⟩
                cases act with
                | false => left; exact ⟨rfl, by simpa using hrun⟩
                | true =>
                  right
                  refine ⟨rfl, ?_⟩
                  simp only [Bool.not_true, Bool.false_eq_true, if_false, bind_run] at hrun
                  cases hm : Foca.applyMany E updates true c1 with
                  | stuck x => rw [hm] at hrun; simp at hrun
                  | err e c2 => rw [hm] at hrun; simp at hrun
                  | ok u c2 =>
                    rw [hm] at hrun
                    simp only at hrun
                    cases hc : Foca.attempt (Foca.handleCustomBroadcasts E tail (some h.src)) c2 with
                    | stuck x => rw [hc] at hrun; simp at hrun
                    | err e c3 => rw [hc] at hrun; simp at hrun
                    | ok cres c3 =>
                      rw [hc] at hrun
                      simp only at hrun
                      exact ⟨c2, cres, c3, rfl, hc, hrun⟩

/-- a reply stage that returned `Ok`: the instance was not connected and nothing happened, or it was connected, the
    custom broadcasts had not failed, and the reply table ran -/
theorem replyStage_ok (h : Header) (cres : Option ErrKind) (c c' : Ctx) (hrun : Foca.replyStage E h cres c = .ok () c') :
    (c.s.conn ≠ .connected ∧ c' = c) ∨ (c.s.conn = .connected ∧ Foca.reactToMessage E h c = .ok () c') := by
  unfold Foca.replyStage at hrun
  simp only [bind_run, getS_run] at hrun
  by_cases hcn : c.s.conn = .connected
  · right
    refine ⟨hcn, ?_⟩
    simp only [hcn, bne_self_eq_false, Bool.false_eq_true, ↓reduceIte, bind_run] at hrun
    cases hr : Foca.reactToMessage E h c with
    | stuck x => rw [hr] at hrun; simp at hrun
    | err e c1 => rw [hr] at hrun; simp at hrun
    | ok u c1 =>
      rw [hr] at hrun
      simp only at hrun
      cases cres with
      | some e => simp at hrun
      | none => simp only [pure_run, R.ok.injEq, true_and] at hrun; rw [hrun]
  · left
    refine ⟨hcn, ?_⟩
    have hb : (c.s.conn != Conn.connected) = true := by simpa using hcn
    simp only [hb, ↓reduceIte] at hrun
    cases cres with
    | some e => simp at hrun
    | none => simp only [pure_run, R.ok.injEq, true_and] at hrun; exact hrun.symm

end

section
variable (E : Env) (τ : Id → Nat) (ids : List Id) (K : Msg → Prop)

/-- **A calm datagram addressed to the instance reaches the reply stage**: in a calm state a successful
    `handle_data` of a datagram carrying Alive claims about cluster identities under a calm header whose destination
    is the instance itself ended with the reply stage, entered in a calm state. -/
theorem calm_data_reaches_reply (hd : DistinctAddrs ids) (data : Bytes) (c c' : Ctx)
    (hc : CalmSent E τ ids K c.s c.eff) (hdat : DataOk E (CalmM τ ids) (CalmH τ ids) data)
    (hrun : Foca.handleData E data c = .ok () c') (h : Header) (rest : Bytes)
    (hdec : E.codec.decHeader data = some (h, rest)) (hdst : h.dst = c.s.id) :
    ∃ cres c3, CalmSent E τ ids K c3.s c3.eff ∧ Foca.replyStage E h cres c3 = .ok () c' := by
  obtain ⟨h', rest', hdec', hcase⟩ := handleData_ok E data c c' hrun
  rw [hdec] at hdec'
  simp only [Option.some.injEq, Prod.mk.injEq] at hdec'
  obtain ⟨rfl, rfl⟩ := hdec'
  rcases hcase with ⟨hacc, _⟩ | ⟨updates, tail, hparse, act, c1, hu, hcase⟩
  · exfalso
    simp [Gen.acceptPayload, hdst] at hacc
  · obtain ⟨hh, hmem⟩ := hdat h rest hdec
    have h1 := (CalmP.applyUpdate E τ ids K hd ⟨h.src, h.srcInc, .alive⟩ true hh.sender).run c hc
    rw [hu] at h1
    simp only at h1
    obtain ⟨hc1, hact⟩ := h1
    rcases hcase with ⟨hf, _⟩ | ⟨_, c2, cres, c3, hm, hcb, hrs⟩
    · rw [hact] at hf; cases hf
    · have h2 := (CalmP.applyMany E τ ids K hd updates true (hmem updates tail hparse)).run c1 hc1
      rw [hm] at h2
      simp only at h2
      have h3 := (PresE.attempt (CalmP.handleCustomBroadcasts E τ ids K tail (some h.src))).run c2 h2
      rw [hcb] at h3
      simp only at h3
      exact ⟨cres, c3, h3, hrs⟩

/-- **A Ping is answered.** A calm instance that handled — successfully — a Ping numbered `n` addressed to it and
    is connected afterwards has sent, as the last datagram of the call, a datagram to the Ping's source built around
    the header `Ack n` from its own identity. (An instance that is not connected does not answer: `handle_data` reacts
    to the message only while connected.) -/
theorem ping_is_answered (hd : DistinctAddrs ids) (data : Bytes) (c c' : Ctx)
    (hc : CalmSent E τ ids K c.s c.eff) (hdat : DataOk E (CalmM τ ids) (CalmH τ ids) data)
    (hrun : Foca.handleData E data c = .ok () c') (h : Header) (rest : Bytes)
    (hdec : E.codec.decHeader data = some (h, rest)) (hdst : h.dst = c.s.id) (n : Nat) (hmsg : h.msg = .ping n)
    (hconn : c'.s.conn = .connected) :
    ∃ pre bytes, c'.eff = pre ++ [.send h.src bytes] ∧ bytes.length ≤ c'.s.cfg.mps ∧
      DatagramShape E (CalmM τ ids) ⟨c'.s.id, c'.s.inc, h.src, .ack n⟩ bytes := by
  obtain ⟨cres, c3, hc3, hrs⟩ := calm_data_reaches_reply E τ ids K hd data c c' hc hdat hrun h rest hdec hdst
  rcases replyStage_ok E h cres c3 c' hrs with ⟨hncn, rfl⟩ | ⟨_, hreact⟩
  · exact absurd hconn hncn
  · have hsend : Foca.sendMessage E h.src (.ack n) c3 = .ok () c' := by
      rw [← hreact]
      simp [Foca.reactToMessage, hmsg]
    have hsh := sendMessage_shape E (CalmM τ ids) h.src (.ack n) c3 (CalmInv.sendReady E τ ids hc3.1)
    have hsp := sendMessage_spec E h.src (.ack n) c3
    rw [hsend] at hsh hsp
    simp only [SentShape, SendOK] at hsh hsp
    obtain ⟨bytes, he, hlen, hshape⟩ := hsh
    have hob := hsp.1
    unfold OnlyBacklogs at hob
    refine ⟨c3.eff, bytes, he, ?_, ?_⟩
    · rw [hob]; exact hlen
    · rw [hob]; exact hshape

/-- **An Ack answers its round.** A calm instance that handled — successfully — an Ack numbered `n` from `m`
    addressed to it and is connected afterwards counts the round for `m` under `n`, if that is the round it is in,
    as answered (`HasEv`). -/
theorem ack_answers_round (hd : DistinctAddrs ids) (data : Bytes) (c c' : Ctx)
    (hc : CalmSent E τ ids K c.s c.eff) (hdat : DataOk E (CalmM τ ids) (CalmH τ ids) data)
    (hrun : Foca.handleData E data c = .ok () c') (h : Header) (rest : Bytes)
    (hdec : E.codec.decHeader data = some (h, rest)) (hdst : h.dst = c.s.id) (n : Nat) (hmsg : h.msg = .ack n)
    (hconn : c'.s.conn = .connected) (m : Member) (hm : m.id = h.src) : HasEv m n c'.s := by
  obtain ⟨cres, c3, hc3, hrs⟩ := calm_data_reaches_reply E τ ids K hd data c c' hc hdat hrun h rest hdec hdst
  rcases replyStage_ok E h cres c3 c' hrs with ⟨hncn, rfl⟩ | ⟨_, hreact⟩
  · exact absurd hconn hncn
  · have hmod : c' = { c3 with s := { c3.s with probe := c3.s.probe.receiveAck h.src n } } := by
      have : Foca.reactToMessage E h c3 = .ok () { c3 with s := { c3.s with probe := c3.s.probe.receiveAck h.src n } } := by
        simp [Foca.reactToMessage, hmsg]
      rw [this] at hreact
      simp only [R.ok.injEq, true_and] at hreact
      exact hreact.symm
    subst hmod
    unfold HasEv
    simp only
    unfold Probe.receiveAck
    split
    · intro _ _
      simp [Probe.succeeded, Gen.probeSucceeded]
    · rename_i hcond
      intro hdir hnum
      exfalso
      apply hcond
      simp [Probe.isProbing, hdir, hnum, hm]

end

/-! ### between two probe timers the round is the one that was started -/

/-- the probe has no target, or targets `m` under number `N` -/
def Tgt (m : Member) (N : Nat) (s : State) : Prop :=
  s.probe.direct = none ∨ (s.probe.direct = some m ∧ s.probe.number = N)

section
variable (E : Env) (m : Member) (N : Nat)

theorem Tgt.leaves : LeavesQ E (fun s _ => Tgt m N s) (fun _ => false) := by
  refine LeavesQ.of_core E ?_ ?_ ?_ ?_ ?_ ?_ ?_
  · intro s s' _ _ _ _ h5 h
    unfold Tgt at *
    rw [h5]; exact h
  · intro g hg hq s h
    unfold Tgt at *
    simp only
    obtain ⟨hnum, _⟩ := hq s.probe
    rcases hg s.probe with hnone | ⟨hsame, _⟩
    · exact Or.inl hnone
    · rcases h with h | ⟨h1, h2⟩
      · left; rw [hsame]; exact h
      · right; exact ⟨by rw [hsame]; exact h1, by rw [hnum]; exact h2⟩
  · intro s _; exact Or.inl rfl
  · intro s _; exact Or.inl rfl
  · intro s _; exact Or.inl rfl
  · intro s _ h; exact h
  · intro s cfg sc h; exact h

/-- the two evidence writes keep target and number -/
theorem Tgt.recvOk (h : Header) : RecvOk (fun s _ => Tgt m N s) h := by
  refine ⟨fun n _ => ⟨fun c hc => ?_⟩, fun o n _ => ⟨fun c hc => ?_⟩⟩
  · simp only [modS_run]
    unfold Tgt at *
    simp only
    unfold Probe.receiveAck
    split <;> exact hc
  · simp only [modS_run]
    unfold Tgt at *
    simp only
    unfold Probe.receiveIndirectAck
    split
    · exact hc
    · split <;> exact hc

/-- **Only a probe timer starts a round**: any other call leaves the probe without a target or on the round it
    was on. -/
theorem Tgt.step (s : State) (op : Op) (orc : Oracle) (h : Tgt m N s) (hop : ∀ tok, op ≠ .timer (.probe tok)) :
    match Foca.step E s op orc with
    | .done s' _ _ _ => Tgt m N s'
    | .stuck _ => True := by
  have L := Tgt.leaves E m N
  have hrun := (L.runOp op (fun t ht hl => by
    by_cases hp : t.loopNo = some 0
    · cases t with
      | probe tok => exact absurd ht (hop tok)
      | pa tok => simp [Timer.loopNo] at hp
      | pad tok => simp [Timer.loopNo] at hp
      | pg tok => simp [Timer.loopNo] at hp
      | indirect p tok => simp [Timer.isLoop] at hl
      | s2d m inc tok => simp [Timer.isLoop] at hl
      | rm m => simp [Timer.isLoop] at hl
    · exact L.periodicBranch t hl hp (fun _ _ _ => ⟨fun _ hc => hc⟩))
    (fun b _ hd _ _ => Tgt.recvOk m N hd)).run ⟨s, [], orc⟩ h
  unfold Foca.step
  cases hr : Foca.runOp E op ⟨s, [], orc⟩ with
  | stuck x => trivial
  | ok r c => rw [hr] at hrun; exact hrun
  | err e c => rw [hr] at hrun; exact hrun

end

/-- `stage_step_other`, from any state the stage is known since -/
theorem StageSince.step (E : Env) (s0 s : State) (op : Op) (orc : Oracle) (h : StageSince s0 s)
    (hop : ∀ tok, op ≠ .timer (.probe tok)) :
    match Foca.step E s op orc with
    | .done s' _ _ _ => StageSince s0 s'
    | .stuck _ => True := by
  have L := StageSince.leaves E s0
  have hrun := (L.runOp op (fun t ht hl => by
    by_cases hp : t.loopNo = some 0
    · cases t with
      | probe tok => exact absurd ht (hop tok)
      | pa tok => simp [Timer.loopNo] at hp
      | pad tok => simp [Timer.loopNo] at hp
      | pg tok => simp [Timer.loopNo] at hp
      | indirect p tok => simp [Timer.isLoop] at hl
      | s2d m inc tok => simp [Timer.isLoop] at hl
      | rm m => simp [Timer.isLoop] at hl
    · exact L.periodicBranch t hl hp (fun _ _ _ => ⟨fun _ hc => hc⟩))).run ⟨s, [], orc⟩ h
  unfold Foca.step
  cases hr : Foca.runOp E op ⟨s, [], orc⟩ with
  | stuck x => trivial
  | ok r c => rw [hr] at hrun; exact hrun
  | err e c => rw [hr] at hrun; exact hrun

/-! ### a probe round starts with a Ping -/

section
variable (E : Env)

/-- a successful second stage of a probe round: nobody to ping (the probe is untouched), or the round for `member`
    was started and its Ping — `header ++ body` — is the datagram of this stage -/
theorem probeStartNext_ok (c c' : Ctx) (h : Foca.probeStartNext E c = .ok () c') :
    (c'.s.probe = c.s.probe ∧ c'.eff = c.eff) ∨
    ∃ member body, c'.s.probe = c.s.probe.start member ∧
      c'.eff = c.eff ++ [.send member.id (E.codec.encHeader ⟨c'.s.id, c'.s.inc, member.id, .ping c'.s.probe.number⟩ ++ body),
        .timer c'.s.cfg.probeRtt (.indirect member.id c'.s.token)] := by
  unfold Foca.probeStartNext at h
  simp only [bind_run] at h
  have hm := membersNext_only c
  cases hn : membersNext c with
  | stuck x => rw [hn] at h; simp at h
  | err e c1 => rw [hn] at h; simp at h
  | ok r c1 =>
    rw [hn] at h hm
    simp only [MemOnly, OnlyMembership] at hm
    have heff1 : c1.eff = c.eff := by
      have := Silent.membersNext c
      rw [hn] at this
      exact this
    cases r with
    | none =>
      left
      simp only [pure_run, R.ok.injEq, true_and] at h
      subst h
      exact ⟨by rw [hm], heff1⟩
    | some member =>
      right
      simp only [bind_run, modS_run, getS_run] at h
      have hsp := sendMessage_spec E member.id (.ping (c1.s.probe.start member).number)
        { c1 with s := { c1.s with probe := c1.s.probe.start member } }
      cases hs : Foca.sendMessage E member.id (.ping (c1.s.probe.start member).number)
          { c1 with s := { c1.s with probe := c1.s.probe.start member } } with
      | stuck x => rw [hs] at h; simp at h
      | err e c2 => rw [hs] at h; simp at h
      | ok u c2 =>
        rw [hs] at h hsp
        simp only [emit_run, R.ok.injEq, true_and, SendOK] at h hsp
        obtain ⟨hob, body, he, _⟩ := hsp
        unfold OnlyBacklogs at hob
        subst h
        refine ⟨member, body, ?_, ?_⟩
        · simp only; rw [hob]; simp only; rw [hm]
        · simp only
          rw [he, hob]
          simp only [List.append_assoc, List.cons_append, List.nil_append]
          rw [heff1, hm]

/-- a probe round that returned `Ok`: the cycle before it was complete; first stage, second stage, then the probe
    timer is re-armed -/
theorem probeRandomMember_ok (c c' : Ctx) (hconn : c.s.conn = .connected)
    (h : Foca.probeRandomMember E c = .ok () c') :
    c.s.probe.validate = true ∧ ∃ c1 c2, Foca.probeSuspectFailed E c = .ok () c1 ∧ Foca.probeStartNext E c1 = .ok () c2 ∧
      c' = { c2 with eff := c2.eff ++ [.timer c2.s.cfg.probePeriod (.probe c2.s.token)] } := by
  unfold Foca.probeRandomMember at h
  simp only [bind_run, getS_run] at h
  have hd : (E.debug && c.s.conn != Conn.connected) = false := by simp [hconn]
  simp only [hd, Bool.false_eq_true, ↓reduceIte] at h
  by_cases hv : c.s.probe.validate = true
  · refine ⟨hv, ?_⟩
    simp only [hv, Bool.not_true, Bool.false_eq_true, ↓reduceIte, pure_run, bind_run, getS_run] at h
    cases h1 : Foca.probeSuspectFailed E c with
    | stuck x => rw [h1] at h; simp at h
    | err e c1 => rw [h1] at h; simp at h
    | ok u c1 =>
      rw [h1] at h
      simp only at h
      cases h2 : Foca.probeStartNext E c1 with
      | stuck x => rw [h2] at h; simp at h
      | err e c2 => rw [h2] at h; simp at h
      | ok u2 c2 =>
        rw [h2] at h
        simp only [emit_run, R.ok.injEq, true_and] at h
        exact ⟨c1, c2, rfl, h2, h.symm⟩
  · exfalso
    have hv' : c.s.probe.validate = false := by simpa using hv
    simp only [hv', Bool.not_false, ↓reduceIte, modS_run, bind_run, getS_run] at h
    cases h1 : Foca.probeSuspectFailed E { c with s := { c.s with probe := c.s.probe.clear } } with
    | stuck x => rw [h1] at h; simp at h
    | err e c1 => rw [h1] at h; simp at h
    | ok u c1 =>
      rw [h1] at h
      simp only at h
      cases h2 : Foca.probeStartNext E c1 with
      | stuck x => rw [h2] at h; simp at h
      | err e c2 => rw [h2] at h; simp at h
      | ok u2 c2 =>
        rw [h2] at h
        simp [throwE] at h

end

/-! ### a calm receiver that is not defunct ends up connected -/

/-- the connection state is exactly this -/
def ConnIs (cn : Conn) (s : State) (_ : List Effect) : Prop := s.conn = cn

section
variable (E : Env) (cn : Conn)

theorem ConnIs.modS_of {f : State → State} (h : ∀ s, (f s).conn = s.conn) : PresC (ConnIs cn) (Foca.modS f) :=
  ⟨fun c hc => by simp only [modS_run]; unfold ConnIs at *; rw [h]; exact hc⟩

theorem ConnIs.sendMessage (d : Id) (m : Msg) : PresC (ConnIs cn) (Foca.sendMessage E d m) :=
  ⟨fun c hc => by
    have := sendMessage_spec E d m c
    cases h : Foca.sendMessage E d m c with
    | stuck x => trivial
    | err k c' => rw [h] at this; simp only [SendOK] at this ⊢; unfold ConnIs at *; rw [this.2.1]; exact hc
    | ok a c' =>
      rw [h] at this
      simp only [SendOK] at this ⊢
      have hb := this.1
      unfold OnlyBacklogs at hb
      unfold ConnIs at *
      rw [hb]; exact hc⟩

theorem ConnIs.customLoop (sender : Option Id) (fuel : Nat) (data : Bytes) :
    PresC (ConnIs cn) (Foca.customLoop E sender fuel data) := by
  induction fuel generalizing data with
  | zero => unfold Foca.customLoop; exact PresC.throwE _
  | succ f ih =>
    unfold Foca.customLoop
    presc
    all_goals first
      | exact ConnIs.modS_of cn (fun _ => rfl)
      | exact ih _

theorem ConnIs.handleCustomBroadcasts (data : Bytes) (sender : Option Id) :
    PresC (ConnIs cn) (Foca.handleCustomBroadcasts E data sender) := by
  unfold Foca.handleCustomBroadcasts
  presc
  exact ConnIs.customLoop E cn _ _ _

/-- the reply table, for any message but TurnUndead, leaves the connection state alone -/
theorem ConnIs.reactToMessage (h : Header) (hm : h.msg ≠ .turnUndead) : PresC (ConnIs cn) (Foca.reactToMessage E h) := by
  unfold Foca.reactToMessage
  cases hmsg : h.msg with
  | turnUndead => exact absurd hmsg hm
  | _ =>
    simp only []
    presc
    all_goals first
      | exact ConnIs.sendMessage E cn _ _
      | exact ConnIs.modS_of cn (fun _ => rfl)


theorem ConnIs.applyUpdate (u : Member) (b : Bool) : PresC (ConnIs cn) (Foca.applyUpdate E u b) :=
  PresC.of_core (Q := fun s => s.conn = cn) (fun s s' _ _ h3 _ _ h => by rw [h3]; exact h)
    (fun _ _ _ _ _ => CoreIs.applyUpdate E u b)

/-- applying an Alive update — also one about the instance itself — leaves the connection state alone -/
theorem ConnIs.applyOne (u : Member) (b : Bool) (hu : u.st = .alive) : PresC (ConnIs cn) (Foca.applyOne E u b) := by
  unfold Foca.applyOne
  rw [hu]
  presc
  all_goals first
    | exact ConnIs.applyUpdate E cn _ _
    | (unfold Foca.handleSelfUpdate; exact PresC.pure _)

theorem ConnIs.applyLoop (b : Bool) (us : List Member) (hus : ∀ u ∈ us, u.st = .alive) :
    PresC (ConnIs cn) (Foca.applyLoop E b us) := by
  induction us with
  | nil => unfold Foca.applyLoop; exact PresC.pure _
  | cons u rest ih =>
    unfold Foca.applyLoop
    exact PresC.bind (ConnIs.applyOne E cn u b (hus u (by simp))) (fun _ => ih (fun x hx => hus x (by simp [hx])))

/-- the tail of `become_connected` after the state write -/
def connTail (s : State) : M Unit := do
  Foca.emit (.timer s.cfg.probePeriod (.probe s.token))
  match s.cfg.pa with
  | some p => Foca.emit (.timer p.freq (.pa s.token))
  | none => pure ()
  match s.cfg.pad with
  | some p => Foca.emit (.timer p.freq (.pad s.token))
  | none => pure ()
  match s.cfg.pg with
  | some p => Foca.emit (.timer p.freq (.pg s.token))
  | none => pure ()
  Foca.emit (.notify .active)

theorem becomeConnected_eq : Foca.becomeConnected E = (do
    let s ← Foca.getS
    if E.debug && s.numActive == 0 then Foca.panicAt .connectedNoMembers else
    Foca.modS fun s => { s with conn := .connected }
    connTail s) := rfl

theorem connTail_conn (s : State) : PresC (ConnIs .connected) (connTail s) := by
  unfold connTail
  presc
  all_goals exact ⟨fun _ hc => hc⟩

theorem becomeConnected_conn (c : Ctx) :
    match Foca.becomeConnected E c with
    | .ok _ c' => c'.s.conn = .connected
    | .err _ c' => c'.s.conn = .connected
    | .stuck _ => True := by
  rw [becomeConnected_eq]
  simp only [bind_run, getS_run]
  by_cases hdbg : (E.debug && c.s.numActive == 0) = true
  · simp [hdbg, panicAt]
  · simp only [hdbg, Bool.false_eq_true, ↓reduceIte]
    rw [bind_run, modS_run]
    simp only []
    have key := (connTail_conn c.s).run { c with s := { c.s with conn := .connected } } rfl
    revert key
    generalize connTail c.s _ = r
    intro key
    cases r <;> exact key

/-- `adjust_connection_state` of an instance that is not defunct and lists an active member: connected afterwards -/
theorem adjust_connects (c c' : Ctx) (hnu : c.s.conn ≠ .undead) (hact : 0 < c.s.numActive)
    (h : Foca.adjustConnectionState E c = .ok () c') : c'.s.conn = .connected := by
  unfold Foca.adjustConnectionState at h
  simp only [bind_run, getS_run] at h
  cases hcn : c.s.conn with
  | undead => exact absurd hcn hnu
  | connected =>
    rw [hcn] at h
    have : (c.s.numActive == 0) = false := by simp; omega
    simp only [this, Bool.false_eq_true, ↓reduceIte, pure_run, R.ok.injEq, true_and] at h
    rw [← h]; exact hcn
  | disconnected =>
    rw [hcn] at h
    simp only [hact, ↓reduceIte] at h
    have := becomeConnected_conn E c
    rw [h] at this
    exact this

theorem membersApply_nonempty (u : Member) (c c1 : Ctx) (sm : Summary) (h : Foca.membersApply u c = .ok sm c1) :
    c1.s.ms ≠ [] := by
  unfold Foca.membersApply at h
  cases hx : applyExisting c.s.ms u (fun _ => true) with
  | some r =>
    obtain ⟨ms', sm'⟩ := r
    rw [hx] at h
    simp only [R.ok.injEq] at h
    rw [← h.2]
    simp only
    intro hnil
    subst hnil
    cases hms : c.s.ms with
    | nil => rw [hms] at hx; simp [applyExisting] at hx
    | cons k rest =>
      rw [hms] at hx
      unfold applyExisting at hx
      split at hx
      · simp at hx
      · split at hx <;> simp at hx
  | none =>
    rw [hx] at h
    simp only at h
    cases hd : drawIdx .choose (c.s.ms.length + 1) c with
    | stuck x => rw [hd] at h; simp at h
    | err e c2 => rw [hd] at h; simp at h
    | ok j c2 =>
      rw [hd] at h
      simp only [R.ok.injEq] at h
      rw [← h.2]
      simp only
      intro hnil
      have hp := (applyNew_perm c.s.ms u j).length_eq
      rw [hnil] at hp
      simp at hp


theorem applyUpdate_nonempty (u : Member) (b : Bool) (c c1 : Ctx) (act : Bool)
    (h : Foca.applyUpdate E u b c = .ok act c1) : c1.s.ms ≠ [] := by
  unfold Foca.applyUpdate at h
  simp only [bind_run, getS_run] at h
  by_cases hdbg : (E.debug && c.s.id == u.id) = true
  · simp [hdbg, panicAt] at h
  · simp only [hdbg, Bool.false_eq_true, ↓reduceIte, bind_run] at h
    cases hm : Foca.membersApply u c with
    | stuck x => rw [hm] at h; simp at h
    | err e c2 => rw [hm] at h; simp at h
    | ok sm c2 =>
      rw [hm] at h
      simp only at h
      have hne := membersApply_nonempty u c c2 sm hm
      have hp := (handleApplySummary_pres (E := E) (P := fun s => s.ms ≠ []) (u := u)
        (by unfold Foca.addUpdate; exact Pres.modS_of (fun s hs => hs)) sm b).run c2 hne
      cases hh : Foca.handleApplySummary E sm u b c2 with
      | stuck x => rw [hh] at h; simp at h
      | err e c3 => rw [hh] at h; simp at h
      | ok u3 c3 =>
        rw [hh] at h hp
        simp only [pure_run, R.ok.injEq] at h
        rw [← h.2]
        exact hp

theorem countActive_all (ms : List Member) (h : ∀ m ∈ ms, m.active = true) : countActive ms = ms.length := by
  unfold countActive
  rw [List.filter_eq_self.2 h]

end

section
variable (E : Env) (τ : Id → Nat) (ids : List Id) (K : Msg → Prop)

/-- **A calm receiver that is not defunct ends up connected.** In a calm state with exact member bookkeeping
    (`MsInv`, true of every reachable state), an instance that is not defunct and handles — successfully — a calm
    datagram addressed to it lists the sender as active afterwards and is therefore connected when the call
    returns (and was when the reply table ran). -/
theorem calm_receiver_connected (hd : DistinctAddrs ids) (data : Bytes) (c c' : Ctx)
    (hc : CalmSent E τ ids K c.s c.eff) (hms : MsInv c.s) (hnu : c.s.conn ≠ .undead)
    (hdat : DataOk E (CalmM τ ids) (CalmH τ ids) data)
    (hrun : Foca.handleData E data c = .ok () c') (h : Header) (rest : Bytes)
    (hdec : E.codec.decHeader data = some (h, rest)) (hdst : h.dst = c.s.id) : c'.s.conn = .connected := by
  obtain ⟨h', rest', hdec', hcase⟩ := handleData_ok E data c c' hrun
  rw [hdec] at hdec'
  simp only [Option.some.injEq, Prod.mk.injEq] at hdec'
  obtain ⟨rfl, rfl⟩ := hdec'
  rcases hcase with ⟨hacc, _⟩ | ⟨updates, tail, hparse, act, c1, hu, hcase⟩
  · exfalso
    simp [Gen.acceptPayload, hdst] at hacc
  · obtain ⟨hh, hmem⟩ := hdat h rest hdec
    have h1 := (CalmP.applyUpdate E τ ids K hd ⟨h.src, h.srcInc, .alive⟩ true hh.sender).run c hc
    rw [hu] at h1
    simp only at h1
    obtain ⟨hc1, hact⟩ := h1
    rcases hcase with ⟨hf, _⟩ | ⟨_, c2, cres, c3, hm, hcb, hrs⟩
    · rw [hact] at hf; cases hf
    · -- after the sender's header: same connection state, exact bookkeeping, a non-empty list
      have k1 := (ConnIs.applyUpdate E c.s.conn ⟨h.src, h.srcInc, .alive⟩ true).run c rfl
      rw [hu] at k1
      simp only [ConnIs] at k1
      have m1 := ((MsInv.leaves E).base.applyUpdate ⟨h.src, h.srcInc, .alive⟩ true trivial).run c hms
      rw [hu] at m1
      simp only at m1
      have n1 := applyUpdate_nonempty E _ _ c c1 act hu
      -- the update loop
      have hus := hmem updates tail hparse
      unfold Foca.applyMany at hm
      simp only [bind_run] at hm
      cases hl : Foca.applyLoop E true updates c1 with
      | stuck x => rw [hl] at hm; simp at hm
      | err e c1' => rw [hl] at hm; simp at hm
      | ok ul c1' =>
        rw [hl] at hm
        simp only at hm
        have k2 := (ConnIs.applyLoop E c1.s.conn true updates (fun u hu' => (hus u hu').2.1)).run c1 rfl
        rw [hl] at k2
        simp only [ConnIs] at k2
        have m2 := ((MsInv.leaves E).full.applyLoop true updates (fun _ _ => trivial)).run c1 m1
        rw [hl] at m2
        simp only at m2
        have c2' := (CalmP.applyLoop E τ ids K hd true updates hus).run c1 hc1
        rw [hl] at c2'
        simp only at c2'
        have n2 : c1'.s.ms ≠ [] := by
          cases hms1 : c1.s.ms with
          | nil => exact absurd hms1 n1
          | cons m0 rest0 =>
            have g1 : GenInv m0.id.addr 0 c1.s := ⟨m0, by rw [hms1]; simp, rfl, Nat.zero_le _⟩
            have g2 := ((GenInv.full (E := E) (a := m0.id.addr) (g := 0)).applyLoop true updates (fun _ _ => trivial)).run c1 g1
            rw [hl] at g2
            simp only at g2
            obtain ⟨r, hr, _⟩ := g2
            intro hnil
            rw [hnil] at hr
            simp at hr
        have hact' : 0 < c1'.s.numActive := by
          rw [m2.2, countActive_all _ (fun m hm' => alive_active ((c2'.1.2.2.1 m hm').2.1))]
          exact List.length_pos_iff.2 n2
        have k3 := adjust_connects E c1' c2 (by rw [k2, k1]; exact hnu) hact' hm
        -- custom broadcasts, reply stage
        have k4 := (PresC.attempt (ConnIs.handleCustomBroadcasts E .connected tail (some h.src))).run c2 k3
        rw [hcb] at k4
        simp only [ConnIs] at k4
        rcases replyStage_ok E h cres c3 c' hrs with ⟨hncn, _⟩ | ⟨_, hreact⟩
        · exact absurd k4 hncn
        · have k5 := (ConnIs.reactToMessage E .connected h hh.2.2.2.1).run c3 k4
          rw [hreact] at k5
          exact k5

end
/-! ### the indirect path: a ForwardedAck from a member that was asked -/

/-- the probe is exactly this -/
def ProbeIs (p : Probe) (s : State) (_ : List Effect) : Prop := s.probe = p

section
variable (E : Env) (p : Probe)

theorem ProbeIs.modS_of {f : State → State} (h : ∀ s, (f s).probe = s.probe) : PresC (ProbeIs p) (Foca.modS f) :=
  ⟨fun c hc => by simp only [modS_run]; unfold ProbeIs at *; rw [h]; exact hc⟩

theorem ProbeIs.customLoop (sender : Option Id) (fuel : Nat) (data : Bytes) :
    PresC (ProbeIs p) (Foca.customLoop E sender fuel data) := by
  induction fuel generalizing data with
  | zero => unfold Foca.customLoop; exact PresC.throwE _
  | succ f ih =>
    unfold Foca.customLoop
    presc
    all_goals first
      | exact ProbeIs.modS_of p (fun _ => rfl)
      | exact ih _

theorem ProbeIs.handleCustomBroadcasts (data : Bytes) (sender : Option Id) :
    PresC (ProbeIs p) (Foca.handleCustomBroadcasts E data sender) := by
  unfold Foca.handleCustomBroadcasts
  presc
  exact ProbeIs.customLoop E p _ _ _

theorem ProbeIs.applyUpdate (u : Member) (b : Bool) : PresC (ProbeIs p) (Foca.applyUpdate E u b) :=
  PresC.of_core (Q := fun s => s.probe = p) (fun s s' _ _ _ _ h5 h => by rw [h5]; exact h)
    (fun _ _ _ _ _ => CoreIs.applyUpdate E u b)

theorem ProbeIs.applyOne (u : Member) (b : Bool) (hu : u.st = .alive) : PresC (ProbeIs p) (Foca.applyOne E u b) := by
  unfold Foca.applyOne
  rw [hu]
  presc
  all_goals first
    | exact ProbeIs.applyUpdate E p _ _
    | (unfold Foca.handleSelfUpdate; exact PresC.pure _)

theorem ProbeIs.applyLoop (b : Bool) (us : List Member) (hus : ∀ u ∈ us, u.st = .alive) :
    PresC (ProbeIs p) (Foca.applyLoop E b us) := by
  induction us with
  | nil => unfold Foca.applyLoop; exact PresC.pure _
  | cons u rest ih =>
    unfold Foca.applyLoop
    exact PresC.bind (ProbeIs.applyOne E p u b (hus u (by simp))) (fun _ => ih (fun x hx => hus x (by simp [hx])))

theorem connTail_probe (s : State) : PresC (ProbeIs p) (connTail s) := by
  unfold connTail
  presc
  all_goals exact ⟨fun _ hc => hc⟩

end

section
variable (E : Env)

/-- `adjust_connection_state` of an instance that lists an active member leaves the probe alone -/
theorem adjust_keeps_probe (c c' : Ctx) (hact : 0 < c.s.numActive)
    (h : Foca.adjustConnectionState E c = .ok () c') : c'.s.probe = c.s.probe := by
  unfold Foca.adjustConnectionState at h
  simp only [bind_run, getS_run] at h
  cases hcn : c.s.conn with
  | undead => rw [hcn] at h; simp only [pure_run, R.ok.injEq, true_and] at h; rw [← h]
  | connected =>
    rw [hcn] at h
    have : (c.s.numActive == 0) = false := by simp; omega
    simp only [this, Bool.false_eq_true, ↓reduceIte, pure_run, R.ok.injEq, true_and] at h
    rw [← h]
  | disconnected =>
    rw [hcn] at h
    simp only [hact, ↓reduceIte] at h
    rw [becomeConnected_eq] at h
    simp only [bind_run, getS_run] at h
    by_cases hdbg : (E.debug && c.s.numActive == 0) = true
    · simp [hdbg, panicAt] at h
    · simp only [hdbg, Bool.false_eq_true, ↓reduceIte] at h
      rw [bind_run, modS_run] at h
      simp only [] at h
      have key := (connTail_probe c.s.probe c.s).run { c with s := { c.s with conn := .connected } } rfl
      rw [h] at key
      exact key

end

section
variable (E : Env) (τ : Id → Nat) (ids : List Id) (K : Msg → Prop)

/-- **The context in which the reply table runs**, for a calm receiver that is not defunct: connected, and with the
    probe exactly as it was when the call began. -/
theorem calm_reply_context (hd : DistinctAddrs ids) (data : Bytes) (c c' : Ctx)
    (hc : CalmSent E τ ids K c.s c.eff) (hms : MsInv c.s) (hnu : c.s.conn ≠ .undead)
    (hdat : DataOk E (CalmM τ ids) (CalmH τ ids) data)
    (hrun : Foca.handleData E data c = .ok () c') (h : Header) (rest : Bytes)
    (hdec : E.codec.decHeader data = some (h, rest)) (hdst : h.dst = c.s.id) :
    ∃ cres c3, Foca.replyStage E h cres c3 = .ok () c' ∧ c3.s.conn = .connected ∧ c3.s.probe = c.s.probe := by
  obtain ⟨h', rest', hdec', hcase⟩ := handleData_ok E data c c' hrun
  rw [hdec] at hdec'
  simp only [Option.some.injEq, Prod.mk.injEq] at hdec'
  obtain ⟨rfl, rfl⟩ := hdec'
  rcases hcase with ⟨hacc, _⟩ | ⟨updates, tail, hparse, act, c1, hu, hcase⟩
  · exfalso
    simp [Gen.acceptPayload, hdst] at hacc
  · obtain ⟨hh, hmem⟩ := hdat h rest hdec
    have h1 := (CalmP.applyUpdate E τ ids K hd ⟨h.src, h.srcInc, .alive⟩ true hh.sender).run c hc
    rw [hu] at h1
    simp only at h1
    obtain ⟨hc1, hact⟩ := h1
    rcases hcase with ⟨hf, _⟩ | ⟨_, c2, cres, c3, hm, hcb, hrs⟩
    · rw [hact] at hf; cases hf
    · -- after the sender's header: same connection state, exact bookkeeping, a non-empty list
      have k1 := (ConnIs.applyUpdate E c.s.conn ⟨h.src, h.srcInc, .alive⟩ true).run c rfl
      rw [hu] at k1
      simp only [ConnIs] at k1
      have p1 := (ProbeIs.applyUpdate E c.s.probe ⟨h.src, h.srcInc, .alive⟩ true).run c rfl
      rw [hu] at p1
      simp only [ProbeIs] at p1
      have m1 := ((MsInv.leaves E).base.applyUpdate ⟨h.src, h.srcInc, .alive⟩ true trivial).run c hms
      rw [hu] at m1
      simp only at m1
      have n1 := applyUpdate_nonempty E _ _ c c1 act hu
      -- the update loop
      have hus := hmem updates tail hparse
      unfold Foca.applyMany at hm
      simp only [bind_run] at hm
      cases hl : Foca.applyLoop E true updates c1 with
      | stuck x => rw [hl] at hm; simp at hm
      | err e c1' => rw [hl] at hm; simp at hm
      | ok ul c1' =>
        rw [hl] at hm
        simp only at hm
        have k2 := (ConnIs.applyLoop E c1.s.conn true updates (fun u hu' => (hus u hu').2.1)).run c1 rfl
        rw [hl] at k2
        simp only [ConnIs] at k2
        have p2 := (ProbeIs.applyLoop E c1.s.probe true updates (fun u hu' => (hus u hu').2.1)).run c1 rfl
        rw [hl] at p2
        simp only [ProbeIs] at p2
        have m2 := ((MsInv.leaves E).full.applyLoop true updates (fun _ _ => trivial)).run c1 m1
        rw [hl] at m2
        simp only at m2
        have c2' := (CalmP.applyLoop E τ ids K hd true updates hus).run c1 hc1
        rw [hl] at c2'
        simp only at c2'
        have n2 : c1'.s.ms ≠ [] := by
          cases hms1 : c1.s.ms with
          | nil => exact absurd hms1 n1
          | cons m0 rest0 =>
            have g1 : GenInv m0.id.addr 0 c1.s := ⟨m0, by rw [hms1]; simp, rfl, Nat.zero_le _⟩
            have g2 := ((GenInv.full (E := E) (a := m0.id.addr) (g := 0)).applyLoop true updates (fun _ _ => trivial)).run c1 g1
            rw [hl] at g2
            simp only at g2
            obtain ⟨r, hr, _⟩ := g2
            intro hnil
            rw [hnil] at hr
            simp at hr
        have hact' : 0 < c1'.s.numActive := by
          rw [m2.2, countActive_all _ (fun m hm' => alive_active ((c2'.1.2.2.1 m hm').2.1))]
          exact List.length_pos_iff.2 n2
        have k3 := adjust_connects E c1' c2 (by rw [k2, k1]; exact hnu) hact' hm
        have p3 := adjust_keeps_probe E c1' c2 hact' hm
        -- custom broadcasts, reply stage
        have k4 := (PresC.attempt (ConnIs.handleCustomBroadcasts E .connected tail (some h.src))).run c2 k3
        rw [hcb] at k4
        simp only [ConnIs] at k4
        have p4 := (PresC.attempt (ProbeIs.handleCustomBroadcasts E c2.s.probe tail (some h.src))).run c2 rfl
        rw [hcb] at p4
        simp only [ProbeIs] at p4
        exact ⟨cres, c3, hrs, k4, by rw [p4, p3, p2, p1]⟩

/-- **A ForwardedAck from a member that was asked answers the round.** A calm instance that is not defunct handles —
    successfully — a ForwardedAck numbered `n` from a member it asked to probe indirectly in the current round
    (`h.src ∈ probe.indirect`: asked and not counted yet) while the probe number is `n`: the round counts as answered. -/
theorem forwarded_ack_answers_round (hd : DistinctAddrs ids) (data : Bytes) (c c' : Ctx)
    (hc : CalmSent E τ ids K c.s c.eff) (hms : MsInv c.s) (hnu : c.s.conn ≠ .undead)
    (hdat : DataOk E (CalmM τ ids) (CalmH τ ids) data)
    (hrun : Foca.handleData E data c = .ok () c') (h : Header) (rest : Bytes)
    (hdec : E.codec.decHeader data = some (h, rest)) (hdst : h.dst = c.s.id) (o : Id) (n : Nat)
    (hmsg : h.msg = .forwardedAck o n) (hnum : c.s.probe.number = n) (hasked : h.src ∈ c.s.probe.indirect) :
    c'.s.probe.succeeded = true := by
  obtain ⟨cres, c3, hrs, hcn, hpr⟩ := calm_reply_context E τ ids K hd data c c' hc hms hnu hdat hrun h rest hdec hdst
  rcases replyStage_ok E h cres c3 c' hrs with ⟨hncn, _⟩ | ⟨_, hreact⟩
  · exact absurd hcn hncn
  · unfold Foca.reactToMessage at hreact
    simp only [bind_run, getS_run, hmsg] at hreact
    by_cases ho : (o == c3.s.id) = true
    · simp [ho, throwE] at hreact
    · simp only [ho, Bool.false_eq_true, ↓reduceIte, modS_run, R.ok.injEq, true_and] at hreact
      rw [← hreact]
      simp only
      rw [hpr]
      unfold Probe.receiveIndirectAck
      have h1 : (c.s.probe.number != n) = false := by simp [hnum]
      simp only [h1, Bool.false_eq_true, ↓reduceIte]
      cases hf : c.s.probe.indirect.findIdx? (· == h.src) with
      | none =>
        exfalso
        rw [List.findIdx?_eq_none_iff] at hf
        have := hf h.src hasked
        simp at this
      | some pos => simp [Probe.succeeded, Gen.probeSucceeded]

end
/-! ### the whole reply table -/

section
variable (E : Env) (τ : Id → Nat) (ids : List Id) (K : Msg → Prop)

/-- **The reply table is followed.** A calm instance that handled — successfully — a request (Ping, PingReq,
    IndirectPing, IndirectAck, Announce) addressed to it and is connected afterwards has sent, as the last datagram
    of the call, the table's answer to the table's destination. -/
theorem request_is_answered (hd : DistinctAddrs ids) (data : Bytes) (c c' : Ctx)
    (hc : CalmSent E τ ids K c.s c.eff) (hdat : DataOk E (CalmM τ ids) (CalmH τ ids) data)
    (hrun : Foca.handleData E data c = .ok () c') (h : Header) (rest : Bytes)
    (hdec : E.codec.decHeader data = some (h, rest)) (hdst : h.dst = c.s.id) (d : Id) (r : Msg)
    (hreply : C18.replyOf h.src h.msg = some (d, r)) (hconn : c'.s.conn = .connected) :
    ∃ pre bytes, c'.eff = pre ++ [.send d bytes] ∧ bytes.length ≤ c'.s.cfg.mps ∧
      DatagramShape E (CalmM τ ids) ⟨c'.s.id, c'.s.inc, d, r⟩ bytes := by
  obtain ⟨cres, c3, hc3, hrs⟩ := calm_data_reaches_reply E τ ids K hd data c c' hc hdat hrun h rest hdec hdst
  rcases replyStage_ok E h cres c3 c' hrs with ⟨hncn, rfl⟩ | ⟨_, hreact⟩
  · exact absurd hconn hncn
  · have hm : h.msg ≠ .turnUndead := by
      intro hx; rw [hx] at hreply; simp [C18.replyOf] at hreply
    have ht := C18.reply_table E h.src h.dst h.srcInc h.msg c3 hm
    rw [hreply] at ht
    simp only at ht
    have heta : (⟨h.src, h.srcInc, h.dst, h.msg⟩ : Header) = h := by cases h; rfl
    rw [heta] at ht
    have hsend : Foca.sendMessage E d r c3 = .ok () c' := by
      rcases ht with ht | ht
      · rw [← ht]; exact hreact
      · rw [ht] at hreact; cases hreact
    have hsh := sendMessage_shape E (CalmM τ ids) d r c3 (CalmInv.sendReady E τ ids hc3.1)
    have hsp := sendMessage_spec E d r c3
    rw [hsend] at hsh hsp
    simp only [SentShape, SendOK] at hsh hsp
    obtain ⟨bytes, he, hlen, hshape⟩ := hsh
    have hob := hsp.1
    unfold OnlyBacklogs at hob
    refine ⟨c3.eff, bytes, he, ?_, ?_⟩
    · rw [hob]; exact hlen
    · rw [hob]; exact hshape

end

/-- the table's answer to a wire-range header is wire-range -/
theorem reply_wire {h : Header} (hw : HWire h) {d : Id} {r : Msg} (hreply : C18.replyOf h.src h.msg = some (d, r)) :
    IdWire d ∧ MsgWire r := by
  obtain ⟨hsrc, _, _, hmsg⟩ := hw
  cases hm : h.msg with
  | ping n => rw [hm] at hreply hmsg; simp [C18.replyOf] at hreply; obtain ⟨rfl, rfl⟩ := hreply; exact ⟨hsrc, hmsg⟩
  | pingReq t n => rw [hm] at hreply hmsg; simp [C18.replyOf] at hreply; obtain ⟨rfl, rfl⟩ := hreply; exact ⟨hmsg.1, hsrc, hmsg.2⟩
  | indirectPing o n => rw [hm] at hreply hmsg; simp [C18.replyOf] at hreply; obtain ⟨rfl, rfl⟩ := hreply; exact ⟨hsrc, hmsg⟩
  | indirectAck t n => rw [hm] at hreply hmsg; simp [C18.replyOf] at hreply; obtain ⟨rfl, rfl⟩ := hreply; exact ⟨hmsg.1, hsrc, hmsg.2⟩
  | announce => rw [hm] at hreply; simp [C18.replyOf] at hreply; obtain ⟨rfl, rfl⟩ := hreply; exact ⟨hsrc, trivial⟩
  | ack n => rw [hm] at hreply; simp [C18.replyOf] at hreply
  | forwardedAck o n => rw [hm] at hreply; simp [C18.replyOf] at hreply
  | gossip => rw [hm] at hreply; simp [C18.replyOf] at hreply
  | feed => rw [hm] at hreply; simp [C18.replyOf] at hreply
  | broadcast => rw [hm] at hreply; simp [C18.replyOf] at hreply
  | turnUndead => rw [hm] at hreply; simp [C18.replyOf] at hreply

end Foca
