/-
  The probe round trip, forwards: what a *successful* `handle_data` went through (run decomposition), a calm
  instance that is connected after handling a Ping has sent the Ack, an Ack that was handled answers the round it
  belongs to, and a probe round starts with a Ping to its target. Together with `C12H.evidence_suffices` this turns
  `RoundAnswered` — the timing premise of `C02S.calm_cluster_stays_calm` — into a statement about deliveries only.
-/
import FocaModel.Proofs.CalmInv
import FocaModel.Proofs.EvidenceInv
namespace Foca
open Foca.C07 Foca.C07H

section
variable (E : Env)

/-- **Run decomposition.** A `handle_data` that returned `Ok` either ignored the datagram (not addressed to the
    instance), or took the inactive-sender branch, or went through: sender's header applied (`c1`), updates applied
    (`c2`), custom broadcasts attempted (`c3`), reply stage. -/
theorem handleData_ok (data : Bytes) (c c' : Ctx) (hrun : Foca.handleData E data c = .ok () c') :
    ∃ h rest, E.codec.decHeader data = some (h, rest) ∧
      ((Gen.acceptPayload c.s.id h.dst h.msg = false ∧ c' = c) ∨
       ∃ updates tail, parseSection E h rest = some (updates, tail) ∧
        ∃ act c1, Foca.applyUpdate E ⟨h.src, h.srcInc, .alive⟩ true c = .ok act c1 ∧
          ((act = false ∧ Foca.inactiveSender E h c1 = .ok () c') ∨
           (act = true ∧ ∃ c2 cres c3, Foca.applyMany E updates true c1 = .ok () c2 ∧
              Foca.attempt (Foca.handleCustomBroadcasts E tail (some h.src)) c2 = .ok cres c3 ∧
              Foca.replyStage E h cres c3 = .ok () c'))) := by
  unfold Foca.handleData at hrun
  simp only [bind_run, getS_run] at hrun
  by_cases h0 : data.length > c.s.cfg.mps
  · simp [h0] at hrun
  · simp only [h0, if_false] at hrun
    cases hdec : E.codec.decHeader data with
    | none => rw [hdec] at hrun; simp at hrun
    | some hr =>
      obtain ⟨h, rest⟩ := hr
      rw [hdec] at hrun
      simp only at hrun
      refine ⟨h, rest, rfl, ?_⟩
      by_cases h1 : (h.src == c.s.id || h.src.addr == c.s.id.addr) = true
      · simp [h1] at hrun
      · simp only [h1, Bool.false_eq_true, ↓reduceIte] at hrun
        by_cases h2 : (rest.length == Gen.trailingByteBad || h.msg == Msg.announce && decide (rest.length > 0)) = true
        · simp [h2] at hrun
        · simp only [h2, Bool.false_eq_true, ↓reduceIte] at hrun
          by_cases h3 : (!Gen.acceptPayload c.s.id h.dst h.msg) = true
          · left
            simp only [h3, ↓reduceIte, pure_run, R.ok.injEq, true_and] at hrun
            exact ⟨by simpa using h3, hrun.symm⟩
          · right
            simp only [h3, Bool.false_eq_true, ↓reduceIte] at hrun
            cases hparse : parseSection E h rest with
            | none => rw [hparse] at hrun; simp at hrun
            | some ut =>
              obtain ⟨updates, tail⟩ := ut
              rw [hparse] at hrun
              simp only [bind_run] at hrun
              refine ⟨updates, tail, rfl, ?_⟩
              cases hu : Foca.applyUpdate E ⟨h.src, h.srcInc, .alive⟩ true c with
              | stuck x => rw [hu] at hrun; simp at hrun
              | err e c1 => rw [hu] at hrun; simp at hrun
              | ok act c1 =>
                rw [hu] at hrun
                simp only at hrun
                refine ⟨act, c1, rfl, ?_⟩
                cases act with
                | false => left; exact ⟨rfl, by simpa using hrun⟩
                | true =>
                  right
                  refine ⟨rfl, ?_⟩
                  simp only [Bool.not_true, Bool.false_eq_true, if_false, bind_run] at hrun
                  cases hm : Foca.applyMany E updates true c1 with
                  | stuck x => rw [hm] at hrun; simp at hrun
                  | err e c2 => rw [hm] at hrun; simp at hrun
                  | ok u c2 =>
                    rw [hm] at hrun
                    simp only at hrun
                    cases hc : Foca.attempt (Foca.handleCustomBroadcasts E tail (some h.src)) c2 with
                    | stuck x => rw [hc] at hrun; simp at hrun
                    | err e c3 => rw [hc] at hrun; simp at hrun
                    | ok cres c3 =>
                      rw [hc] at hrun
                      simp only at hrun
                      exact ⟨c2, cres, c3, rfl, hc, hrun⟩

/-- a reply stage that returned `Ok`: the instance was not connected and nothing happened, or it was connected, the
    custom broadcasts had not failed, and the reply table ran -/
theorem replyStage_ok (h : Header) (cres : Option ErrKind) (c c' : Ctx) (hrun : Foca.replyStage E h cres c = .ok () c') :
    (c.s.conn ≠ .connected ∧ c' = c) ∨ (c.s.conn = .connected ∧ Foca.reactToMessage E h c = .ok () c') := by
  unfold Foca.replyStage at hrun
  simp only [bind_run, getS_run] at hrun
  by_cases hcn : c.s.conn = .connected
  · right
    refine ⟨hcn, ?_⟩
    simp only [hcn, bne_self_eq_false, Bool.false_eq_true, ↓reduceIte, bind_run] at hrun
    cases hr : Foca.reactToMessage E h c with
    | stuck x => rw [hr] at hrun; simp at hrun
    | err e c1 => rw [hr] at hrun; simp at hrun
    | ok u c1 =>
      rw [hr] at hrun
      simp only at hrun
      cases cres with
      | some e => simp at hrun
      | none => simp only [pure_run, R.ok.injEq, true_and] at hrun; rw [hrun]
  · left
    refine ⟨hcn, ?_⟩
    have hb : (c.s.conn != Conn.connected) = true := by simpa using hcn
    simp only [hb, ↓reduceIte] at hrun
    cases cres with
    | some e => simp at hrun
    | none => simp only [pure_run, R.ok.injEq, true_and] at hrun; exact hrun.symm

end

section
variable (E : Env) (τ : Id → Nat) (ids : List Id) (K : Msg → Prop)

/-- **A calm datagram addressed to the instance reaches the reply stage**: in a calm state a successful
    `handle_data` of a datagram carrying Alive claims about cluster identities under a calm header whose destination
    is the instance itself ended with the reply stage, entered in a calm state. -/
theorem calm_data_reaches_reply (hd : DistinctAddrs ids) (data : Bytes) (c c' : Ctx)
    (hc : CalmSent E τ ids K c.s c.eff) (hdat : DataOk E (CalmM τ ids) (CalmH τ ids) data)
    (hrun : Foca.handleData E data c = .ok () c') (h : Header) (rest : Bytes)
    (hdec : E.codec.decHeader data = some (h, rest)) (hdst : h.dst = c.s.id) :
    ∃ cres c3, CalmSent E τ ids K c3.s c3.eff ∧ Foca.replyStage E h cres c3 = .ok () c' := by
  obtain ⟨h', rest', hdec', hcase⟩ := handleData_ok E data c c' hrun
  rw [hdec] at hdec'
  simp only [Option.some.injEq, Prod.mk.injEq] at hdec'
  obtain ⟨rfl, rfl⟩ := hdec'
  rcases hcase with ⟨hacc, _⟩ | ⟨updates, tail, hparse, act, c1, hu, hcase⟩
  · exfalso
    simp [Gen.acceptPayload, hdst] at hacc
  · obtain ⟨hh, hmem⟩ := hdat h rest hdec
    have h1 := (CalmP.applyUpdate E τ ids K hd ⟨h.src, h.srcInc, .alive⟩ true hh.sender).run c hc
    rw [hu] at h1
    simp only at h1
    obtain ⟨hc1, hact⟩ := h1
    rcases hcase with ⟨hf, _⟩ | ⟨_, c2, cres, c3, hm, hcb, hrs⟩
    · rw [hact] at hf; cases hf
    · have h2 := (CalmP.applyMany E τ ids K hd updates true (hmem updates tail hparse)).run c1 hc1
      rw [hm] at h2
      simp only at h2
      have h3 := (PresE.attempt (CalmP.handleCustomBroadcasts E τ ids K tail (some h.src))).run c2 h2
      rw [hcb] at h3
      simp only at h3
      exact ⟨cres, c3, h3, hrs⟩

/-- **A Ping is answered.** A calm instance that handled — successfully — a Ping numbered `n` addressed to it and
    is connected afterwards has sent, as the last datagram of the call, a datagram to the Ping's source built around
    the header `Ack n` from its own identity. (An instance that is not connected does not answer: `handle_data` reacts
    to the message only while connected.) -/
theorem ping_is_answered (hd : DistinctAddrs ids) (data : Bytes) (c c' : Ctx)
    (hc : CalmSent E τ ids K c.s c.eff) (hdat : DataOk E (CalmM τ ids) (CalmH τ ids) data)
    (hrun : Foca.handleData E data c = .ok () c') (h : Header) (rest : Bytes)
    (hdec : E.codec.decHeader data = some (h, rest)) (hdst : h.dst = c.s.id) (n : Nat) (hmsg : h.msg = .ping n)
    (hconn : c'.s.conn = .connected) :
    ∃ pre bytes, c'.eff = pre ++ [.send h.src bytes] ∧ bytes.length ≤ c'.s.cfg.mps ∧
      DatagramShape E (CalmM τ ids) ⟨c'.s.id, c'.s.inc, h.src, .ack n⟩ bytes := by
  obtain ⟨cres, c3, hc3, hrs⟩ := calm_data_reaches_reply E τ ids K hd data c c' hc hdat hrun h rest hdec hdst
  rcases replyStage_ok E h cres c3 c' hrs with ⟨hncn, rfl⟩ | ⟨_, hreact⟩
  · exact absurd hconn hncn
  · have hsend : Foca.sendMessage E h.src (.ack n) c3 = .ok () c' := by
      rw [← hreact]
      simp [Foca.reactToMessage, hmsg]
    have hsh := sendMessage_shape E (CalmM τ ids) h.src (.ack n) c3 (CalmInv.sendReady E τ ids hc3.1)
    have hsp := sendMessage_spec E h.src (.ack n) c3
    rw [hsend] at hsh hsp
    simp only [SentShape, SendOK] at hsh hsp
    obtain ⟨bytes, he, hlen, hshape⟩ := hsh
    have hob := hsp.1
    unfold OnlyBacklogs at hob
    refine ⟨c3.eff, bytes, he, ?_, ?_⟩
    · rw [hob]; exact hlen
    · rw [hob]; exact hshape

/-- **An Ack answers its round.** A calm instance that handled — successfully — an Ack numbered `n` from `m`
    addressed to it and is connected afterwards counts the round for `m` under `n`, if that is the round it is in,
    as answered (`HasEv`). -/
theorem ack_answers_round (hd : DistinctAddrs ids) (data : Bytes) (c c' : Ctx)
    (hc : CalmSent E τ ids K c.s c.eff) (hdat : DataOk E (CalmM τ ids) (CalmH τ ids) data)
    (hrun : Foca.handleData E data c = .ok () c') (h : Header) (rest : Bytes)
    (hdec : E.codec.decHeader data = some (h, rest)) (hdst : h.dst = c.s.id) (n : Nat) (hmsg : h.msg = .ack n)
    (hconn : c'.s.conn = .connected) (m : Member) (hm : m.id = h.src) : HasEv m n c'.s := by
  obtain ⟨cres, c3, hc3, hrs⟩ := calm_data_reaches_reply E τ ids K hd data c c' hc hdat hrun h rest hdec hdst
  rcases replyStage_ok E h cres c3 c' hrs with ⟨hncn, rfl⟩ | ⟨_, hreact⟩
  · exact absurd hconn hncn
  · have hmod : c' = { c3 with s := { c3.s with probe := c3.s.probe.receiveAck h.src n } } := by
      have : Foca.reactToMessage E h c3 = .ok () { c3 with s := { c3.s with probe := c3.s.probe.receiveAck h.src n } } := by
        simp [Foca.reactToMessage, hmsg]
      rw [this] at hreact
      simp only [R.ok.injEq, true_and] at hreact
      exact hreact.symm
    subst hmod
    unfold HasEv
    simp only
    unfold Probe.receiveAck
    split
    · intro _ _
      simp [Probe.succeeded, Gen.probeSucceeded]
    · rename_i hcond
      intro hdir hnum
      exfalso
      apply hcond
      simp [Probe.isProbing, hdir, hnum, hm]

end

/-! ### between two probe timers the round is the one that was started -/

/-- the probe has no target, or targets `m` under number `N` -/
def Tgt (m : Member) (N : Nat) (s : State) : Prop :=
  s.probe.direct = none ∨ (s.probe.direct = some m ∧ s.probe.number = N)

section
variable (E : Env) (m : Member) (N : Nat)

theorem Tgt.leaves : LeavesQ E (fun s _ => Tgt m N s) (fun _ => false) := by
  refine LeavesQ.of_core E ?_ ?_ ?_ ?_ ?_ ?_ ?_
  · intro s s' _ _ _ _ h5 h
    unfold Tgt at *
    rw [h5]; exact h
  · intro g hg hq s h
    unfold Tgt at *
    simp only
    obtain ⟨hnum, _⟩ := hq s.probe
    rcases hg s.probe with hnone | ⟨hsame, _⟩
    · exact Or.inl hnone
    · rcases h with h | ⟨h1, h2⟩
      · left; rw [hsame]; exact h
      · right; exact ⟨by rw [hsame]; exact h1, by rw [hnum]; exact h2⟩
  · intro s _; exact Or.inl rfl
  · intro s _; exact Or.inl rfl
  · intro s _; exact Or.inl rfl
  · intro s _ h; exact h
  · intro s cfg sc h; exact h

/-- the two evidence writes keep target and number -/
theorem Tgt.recvOk (h : Header) : RecvOk (fun s _ => Tgt m N s) h := by
  refine ⟨fun n _ => ⟨fun c hc => ?_⟩, fun o n _ => ⟨fun c hc => ?_⟩⟩
  · simp only [modS_run]
    unfold Tgt at *
    simp only
    unfold Probe.receiveAck
    split <;> exact hc
  · simp only [modS_run]
    unfold Tgt at *
    simp only
    unfold Probe.receiveIndirectAck
    split
    · exact hc
    · split <;> exact hc

/-- **Only a probe timer starts a round**: any other call leaves the probe without a target or on the round it
    was on. -/
theorem Tgt.step (s : State) (op : Op) (orc : Oracle) (h : Tgt m N s) (hop : ∀ tok, op ≠ .timer (.probe tok)) :
    match Foca.step E s op orc with
    | .done s' _ _ _ => Tgt m N s'
    | .stuck _ => True := by
  have L := Tgt.leaves E m N
  have hrun := (L.runOp op (fun t ht hl => by
    by_cases hp : t.loopNo = some 0
    · cases t with
      | probe tok => exact absurd ht (hop tok)
      | pa tok => simp [Timer.loopNo] at hp
      | pad tok => simp [Timer.loopNo] at hp
      | pg tok => simp [Timer.loopNo] at hp
      | indirect p tok => simp [Timer.isLoop] at hl
      | s2d m inc tok => simp [Timer.isLoop] at hl
      | rm m => simp [Timer.isLoop] at hl
    · exact L.periodicBranch t hl hp (fun _ _ _ => ⟨fun _ hc => hc⟩))
    (fun b _ hd _ _ => Tgt.recvOk m N hd)).run ⟨s, [], orc⟩ h
  unfold Foca.step
  cases hr : Foca.runOp E op ⟨s, [], orc⟩ with
  | stuck x => trivial
  | ok r c => rw [hr] at hrun; exact hrun
  | err e c => rw [hr] at hrun; exact hrun

end

/-- `stage_step_other`, from any state the stage is known since -/
theorem StageSince.step (E : Env) (s0 s : State) (op : Op) (orc : Oracle) (h : StageSince s0 s)
    (hop : ∀ tok, op ≠ .timer (.probe tok)) :
    match Foca.step E s op orc with
    | .done s' _ _ _ => StageSince s0 s'
    | .stuck _ => True := by
  have L := StageSince.leaves E s0
  have hrun := (L.runOp op (fun t ht hl => by
    by_cases hp : t.loopNo = some 0
    · cases t with
      | probe tok => exact absurd ht (hop tok)
      | pa tok => simp [Timer.loopNo] at hp
      | pad tok => simp [Timer.loopNo] at hp
      | pg tok => simp [Timer.loopNo] at hp
      | indirect p tok => simp [Timer.isLoop] at hl
      | s2d m inc tok => simp [Timer.isLoop] at hl
      | rm m => simp [Timer.isLoop] at hl
    · exact L.periodicBranch t hl hp (fun _ _ _ => ⟨fun _ hc => hc⟩))).run ⟨s, [], orc⟩ h
  unfold Foca.step
  cases hr : Foca.runOp E op ⟨s, [], orc⟩ with
  | stuck x => trivial
  | ok r c => rw [hr] at hrun; exact hrun
  | err e c => rw [hr] at hrun; exact hrun

end Foca
