/-
  Frame lemmas: which parts of the state the membership primitives and sending can touch, and the leaf
  obligations (`Base`) of any invariant that looks at neither membership nor the backlogs.
-/
import FocaModel.Proofs.Compose
namespace Foca

/-- the state differs at most in the member list, the active counter and the cursor -/
def OnlyMembership (s s' : State) : Prop :=
  s' = { s with ms := s'.ms, numActive := s'.numActive, cursor := s'.cursor }

theorem OnlyMembership.refl (s : State) : OnlyMembership s s := by cases s; rfl

/-- the result of a membership primitive started in `c` -/
def MemOnly {α} (c : Ctx) (r : R α) : Prop :=
  match r with
  | .ok _ c' => OnlyMembership c.s c'.s
  | .err _ c' => c'.s = c.s
  | .stuck _ => True

/-- a property of everything but membership survives the membership primitives -/
def IgnoresMembership (P : State → Prop) : Prop := ∀ s s', OnlyMembership s s' → P s → P s'

theorem membersApply_only (u : Member) (c : Ctx) : MemOnly c (membersApply u c) := by
  unfold MemOnly
  unfold Foca.membersApply
  cases h : Foca.applyExisting c.s.ms u (fun _ => true) with
  | some r => obtain ⟨ms', sm⟩ := r; simp only [OnlyMembership]
  | none =>
    simp only
    have hd := drawIdx_frame .choose (c.s.ms.length + 1) c
    cases hdr : Foca.drawIdx .choose (c.s.ms.length + 1) c with
    | stuck x => trivial
    | err e c1 => rw [hdr] at hd; exact hd.1
    | ok j c1 => rw [hdr] at hd; simp only [OnlyMembership] at hd ⊢; rw [hd.1]

theorem membersApplyExistingIf_only (u : Member) (cond : Member → Bool) (c : Ctx) : MemOnly c (membersApplyExistingIf u cond c) := by
  unfold MemOnly
  unfold Foca.membersApplyExistingIf
  cases h : Foca.applyExisting c.s.ms u cond with
  | some r => obtain ⟨ms', sm⟩ := r; simp only [OnlyMembership]
  | none => exact OnlyMembership.refl _

theorem membersNext_only (c : Ctx) : MemOnly c (membersNext c) := by
  unfold MemOnly
  unfold Foca.membersNext
  by_cases hs : needsShuffle c.s.cursor c.s.ms.length = true
  · simp only [hs, if_true]
    unfold Foca.drawShuffle
    cases hd : c.orc.draws with
    | nil => trivial
    | cons d rest =>
      cases d with
      | idx k => trivial
      | perm p =>
        simp only
        by_cases hperm : (p.filterMap (fun i => c.s.ms[i]?)).isPerm c.s.ms = true
        · simp only [hperm, if_true, OnlyMembership]
        · simp [hperm]
  · simp only [hs, Bool.false_eq_true, if_false, OnlyMembership]

theorem Pres.of_onlyMembership {α} {P : State → Prop} (hP : IgnoresMembership P) {m : M α}
    (h : ∀ c, MemOnly c (m c)) : Pres P m :=
  ⟨fun c hc => by
    have := h c
    unfold MemOnly at this
    cases hm : m c with
    | stuck x => trivial
    | err e c' => rw [hm] at this; simp only at this ⊢; rw [this]; exact hc
    | ok a c' => rw [hm] at this; exact hP _ _ this hc⟩

/-- the forget-timer, for an invariant that does not look at membership -/
theorem removeDown_of_frame {P : State → Prop} (hM : IgnoresMembership P) (id : Id) :
    Pres P (modS fun s => { s with ms := removeIfDown s.ms id }) :=
  Pres.modS_of (fun s hs => hM _ _ (by simp only [OnlyMembership]) hs)

/-- leaf obligations of an invariant that looks at neither membership nor the backlogs -/
theorem Base.of_frame {E : Env} {P : State → Prop} (hM : IgnoresMembership P) (hB : IgnoresBacklogs P)
    (startProbe : ∀ m, Pres P (modS fun s => { s with probe := s.probe.start m }))
    (modCtl : ∀ f, CtlKeep f → Pres P (modS f))
    (modCustom : ∀ f, CustomOnly f → Pres P (modS f)) : Base E P (fun _ => True) where
  ownDown := fun _ _ => trivial
  membersApply := fun u _ => Pres.of_onlyMembership hM (membersApply_only u)
  membersApplyExistingIf := fun u cond _ => Pres.of_onlyMembership hM (membersApplyExistingIf_only u cond)
  membersNext := ⟨fun c hc => by
    have := (Pres.of_onlyMembership hM membersNext_only).run c hc
    cases hm : Foca.membersNext c with
    | stuck x => trivial
    | err e c' => rw [hm] at this; exact this
    | ok a c' => rw [hm] at this; exact ⟨this, fun _ _ => trivial⟩⟩
  startProbe := fun m _ => startProbe m
  sendMessage := Pres.sendMessage E hB
  addUpdate := fun m _ => by
    unfold Foca.addUpdate
    exact Pres.modS_of (fun s hs => hB _ _ (by simp only [OnlyBacklogs]) hs)
  modCtl := modCtl
  setHst := (customLeaves_of (E := E) modCustom).1
  addCustom := (customLeaves_of (E := E) modCustom).2

end Foca
