/-
  Helper lemmas for C01: the precedence order of SWIM as a numeric key, `updateKnown` as a join.
-/
import FocaModel.Members
namespace Foca

/-- Incarnations are `u16`. -/
def Member.WF (m : Member) : Prop := m.inc ≤ 65535

/-- position of (state, incarnation) in SWIM's precedence order; `Down` is the top element -/
def rank (st : St) (inc : Nat) : Nat :=
  match st with
  | .alive => 2 * inc
  | .suspect => 2 * inc + 1
  | .down => 131072

/-- precedence key of a record among the records of one address: generation first, then rank -/
def key (m : Member) : Nat := m.id.gen * 262144 + rank m.st m.inc

theorem rank_lt (st : St) (inc : Nat) (h : inc ≤ 65535) : rank st inc < 262144 := by
  cases st <;> simp [rank] <;> omega

/-- the generated `can_change` table is exactly the strict order on ranks -/
theorem canChange_iff_lt (st st' : St) (inc inc' : Nat) (h : inc ≤ 65535) (h' : inc' ≤ 65535) :
    Gen.canChange st inc inc' st' = true ↔ rank st inc < rank st' inc' := by
  cases st <;> cases st' <;> simp [Gen.canChange, rank] <;> omega

/-- what `apply_existing_if` (condition always true) leaves in the record -/
def merge (k u : Member) : Member := (updateKnown k u (fun _ => true)).1

theorem id_eq_of (a b : Id) (h1 : a.addr = b.addr) (h2 : a.gen = b.gen) : a = b := by
  cases a; cases b; simp_all

theorem merge_key (k u : Member) (hk : k.WF) (hu : u.WF) (ha : k.id.addr = u.id.addr) :
    key (merge k u) = max (key k) (key u) := by
  have rk := rank_lt k.st k.inc hk
  have ru := rank_lt u.st u.inc hu
  unfold merge updateKnown
  by_cases hid : k.id = u.id
  · have hg : k.id.gen = u.id.gen := by rw [hid]
    by_cases hc : Gen.canChange k.st k.inc u.inc u.st = true
    · have := (canChange_iff_lt k.st u.st k.inc u.inc hk hu).1 hc
      simp [hid, hc, key]; omega
    · have hc' : ¬ rank k.st k.inc < rank u.st u.inc := fun h =>
        hc ((canChange_iff_lt k.st u.st k.inc u.inc hk hu).2 h)
      simp [hid, hc, key] at *; omega
  · have hg : k.id.gen ≠ u.id.gen := fun h => hid (id_eq_of _ _ ha h)
    by_cases hw : k.id.wins u.id = true
    · have : k.id.gen > u.id.gen := by simpa [Id.wins] using hw
      simp [hid, hw, key]; omega
    · have : ¬ k.id.gen > u.id.gen := by simpa [Id.wins] using hw
      simp [hid, hw, key]; omega

theorem merge_addr (k u : Member) (ha : k.id.addr = u.id.addr) : (merge k u).id.addr = u.id.addr := by
  unfold merge updateKnown
  by_cases hid : k.id = u.id
  · by_cases hc : Gen.canChange k.st k.inc u.inc u.st = true <;> simp [hid, hc]
  · by_cases hw : k.id.wins u.id = true <;> simp [hid, hw, ha]

theorem merge_wf (k u : Member) (hk : k.WF) (hu : u.WF) : (merge k u).WF := by
  unfold merge updateKnown Member.WF at *
  by_cases hid : k.id = u.id
  · by_cases hc : Gen.canChange k.st k.inc u.inc u.st = true <;> simp [hid, hc] <;> assumption
  · by_cases hw : k.id.wins u.id = true <;> simp [hid, hw] <;> assumption

/-- equal keys mean: same identity, same state, same incarnation unless Down -/
theorem key_inj (a b : Member) (ha : a.WF) (hb : b.WF) (had : a.id.addr = b.id.addr) (h : key a = key b) :
    a.id = b.id ∧ a.st = b.st ∧ (a.st ≠ .down → a.inc = b.inc) := by
  have ra := rank_lt a.st a.inc ha
  have rb := rank_lt b.st b.inc hb
  unfold key at h
  have hg : a.id.gen = b.id.gen := by omega
  have hr : rank a.st a.inc = rank b.st b.inc := by omega
  refine ⟨id_eq_of _ _ had hg, ?_⟩
  unfold Member.WF at ha hb
  revert hr
  cases a.st <;> cases b.st <;> simp [rank] <;> omega

end Foca
