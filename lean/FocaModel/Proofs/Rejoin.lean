/-
  A handled datagram lists its sender: after a successful `handle_data` of a datagram addressed to the instance, the
  sender's address is listed at a generation at least the sender's (helpers for `Props/C05H.lean`).
-/
import FocaModel.Proofs.Refute
import FocaModel.Proofs.GenInv
namespace Foca
open Foca

theorem updateKnown_gen_ge (k u : Member) (h : k.id.addr = u.id.addr) :
    (updateKnown k u (fun _ => true)).1.id.addr = u.id.addr ∧ (updateKnown k u (fun _ => true)).1.id.gen ≥ u.id.gen := by
  refine ⟨updateKnown_addr k u _ h, ?_⟩
  unfold updateKnown
  by_cases hne : k.id = u.id
  · have h1 : (k.id != u.id) = false := by simp [hne]
    simp only [h1, Bool.false_and, Bool.false_eq_true, ↓reduceIte, Bool.not_true]
    by_cases hc : Gen.canChange k.st k.inc u.inc u.st = true
    · simp only [hc, ↓reduceIte]; rw [hne]; exact Nat.le_refl _
    · simp only [hc, Bool.false_eq_true, ↓reduceIte]; rw [hne]; exact Nat.le_refl _
  · have h1 : (k.id != u.id) = true := by simp [hne]
    by_cases hw : k.id.wins u.id = true
    · simp only [h1, hw, Bool.and_self, ↓reduceIte]
      have : k.id.gen > u.id.gen := by simpa [Id.wins] using hw
      omega
    · simp only [h1, hw, Bool.and_false, Bool.false_eq_true, ↓reduceIte, Bool.not_true]
      exact Nat.le_refl _

theorem applyExisting_lists {ms ms' : List Member} {u : Member} {sm : Summary}
    (h : applyExisting ms u (fun _ => true) = some (ms', sm)) :
    ∃ m ∈ ms', m.id.addr = u.id.addr ∧ m.id.gen ≥ u.id.gen := by
  induction ms generalizing ms' sm with
  | nil => simp [applyExisting] at h
  | cons k rest ih =>
    unfold applyExisting at h
    by_cases hk : (k.id.addr == u.id.addr) = true
    · simp only [hk, ↓reduceIte, Option.some.injEq, Prod.mk.injEq] at h
      obtain ⟨rfl, _⟩ := h
      have := updateKnown_gen_ge k u (by simpa using hk)
      exact ⟨_, by simp, this.1, this.2⟩
    · simp only [hk, Bool.false_eq_true, ↓reduceIte] at h
      cases hr : applyExisting rest u (fun _ => true) with
      | none => rw [hr] at h; simp at h
      | some r =>
        obtain ⟨rest', s'⟩ := r
        rw [hr] at h
        simp only [Option.some.injEq, Prod.mk.injEq] at h
        obtain ⟨rfl, _⟩ := h
        obtain ⟨m, hm, h1, h2⟩ := ih hr
        exact ⟨m, by simp [hm], h1, h2⟩

section
variable (E : Env)

/-- applying an update lists its address at a generation at least the update's -/
theorem applyUpdate_lists (u : Member) (b : Bool) (c c1 : Ctx) (act : Bool)
    (h : Foca.applyUpdate E u b c = .ok act c1) : GenInv u.id.addr u.id.gen c1.s := by
  unfold Foca.applyUpdate at h
  simp only [bind_run, getS_run] at h
  by_cases hdbg : (E.debug && c.s.id == u.id) = true
  · simp [hdbg, panicAt] at h
  · simp only [hdbg, Bool.false_eq_true, ↓reduceIte, bind_run] at h
    cases hm : Foca.membersApply u c with
    | stuck y => rw [hm] at h; simp at h
    | err e c2 => rw [hm] at h; simp at h
    | ok sm c2 =>
      rw [hm] at h
      simp only at h
      have hest : GenInv u.id.addr u.id.gen c2.s := by
        unfold Foca.membersApply at hm
        cases hx : applyExisting c.s.ms u (fun _ => true) with
        | some r =>
          obtain ⟨ms', sm'⟩ := r
          rw [hx] at hm
          simp only [R.ok.injEq] at hm
          rw [← hm.2]
          exact applyExisting_lists hx
        | none =>
          rw [hx] at hm
          simp only at hm
          cases hd : drawIdx .choose (c.s.ms.length + 1) c with
          | stuck y => rw [hd] at hm; simp at hm
          | err e c3 => rw [hd] at hm; simp at hm
          | ok j c3 =>
            rw [hd] at hm
            simp only [R.ok.injEq] at hm
            rw [← hm.2]
            exact ⟨u, (applyNew_perm c.s.ms u j).mem_iff.2 (by simp), rfl, Nat.le_refl _⟩
      have hp := (handleApplySummary_pres (E := E) (P := GenInv u.id.addr u.id.gen) (u := u)
        (by unfold Foca.addUpdate; exact Pres.modS_of (fun s hs => GenInv.of_same (a := u.id.addr) (g := u.id.gen) rfl hs)) sm b).run c2 hest
      cases hh : Foca.handleApplySummary E sm u b c2 with
      | stuck y => rw [hh] at h; simp at h
      | err e c3 => rw [hh] at h; simp at h
      | ok u3 c3 =>
        rw [hh] at h hp
        simp only [pure_run, R.ok.injEq] at h
        rw [← h.2]
        exact hp

/-- a successfully handled datagram addressed to the instance lists its sender's address at a generation at least
    the sender's -/
theorem handleData_lists_sender (data : Bytes) (c c' : Ctx) (hrun : Foca.handleData E data c = .ok () c')
    (h : Header) (rest : Bytes) (hdec : E.codec.decHeader data = some (h, rest)) (hdst : h.dst = c.s.id) :
    GenInv h.src.addr h.src.gen c'.s := by
  obtain ⟨h', rest', hdec', hcase⟩ := handleData_ok E data _ _ hrun
  rw [hdec] at hdec'
  simp only [Option.some.injEq, Prod.mk.injEq] at hdec'
  obtain ⟨rfl, rfl⟩ := hdec'
  have F := GenInv.full (E := E) (a := h.src.addr) (g := h.src.gen)
  rcases hcase with ⟨hacc, _⟩ | ⟨updates, tail, hparse, act, c1, hu, hcase⟩
  · exfalso
    simp [Gen.acceptPayload, hdst] at hacc
  · have r1 := applyUpdate_lists E ⟨h.src, h.srcInc, .alive⟩ true _ c1 act hu
    rcases hcase with ⟨_, hin⟩ | ⟨_, c2, cres, c3, hm, hcb, hrs⟩
    · have := (F.inactiveSender h).run c1 r1
      rw [hin] at this
      exact this
    · have r2 := (F.applyMany updates true (fun _ _ => trivial)).run c1 r1
      rw [hm] at r2
      have r3 := (Pres.attempt (F.toBase.handleCustomBroadcasts tail (some h.src))).run c2 r2
      rw [hcb] at r3
      have r4 := (F.replyStage h cres).run c3 r3
      rw [hrs] at r4
      exact r4

end
end Foca
