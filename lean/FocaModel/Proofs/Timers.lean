/-
  The probe loop over whole histories: an instance has exactly one outstanding effective probe timer while it is
  connected and none otherwise (effective = carrying the current token), provided the `u8` token does not wrap
  onto a timer that is still outstanding (the property's "fewer than 256 epoch changes between issue and delivery").
-/
import FocaModel.Proofs.Quiet
import FocaModel.Proofs.Units
import FocaModel.Props.C13
namespace Foca

/-- inside one call that started at epoch `e0` with `base` effective probe timers outstanding from before -/
def TimInv (e0 base : Nat) (s : State) (eff : List Effect) : Prop :=
  s.epoch ≥ e0 + 256 ∨
  (e0 ≤ s.epoch ∧ s.token = s.epoch % 256 ∧
   (∀ t ∈ probeToks eff, ∃ e, e0 ≤ e ∧ e ≤ s.epoch ∧ t = e % 256) ∧
   (probeToks eff).count s.token + (if s.epoch = e0 then base else 0) = (if s.conn = .connected then 1 else 0))

theorem TimInv.frame (e0 base : Nat) : TimerFrame (TimInv e0 base) := by
  intro s s' eff eff' h1 h2 h3 h4 h
  unfold TimInv at *
  rw [h1, h2, h3, h4]
  exact h

/-- an epoch change (token and epoch move on together, the instance is not connected afterwards) -/
theorem TimInv.bump {e0 base : Nat} {s : State} {eff : List Effect} (s' : State)
    (htok : s'.token = wrapAdd8 s.token) (hep : s'.epoch = s.epoch + 1) (hconn : s'.conn ≠ .connected)
    (h : TimInv e0 base s eff) : TimInv e0 base s' eff := by
  unfold TimInv at *
  rcases h with h | ⟨h1, h2, h3, _⟩
  · left; omega
  · by_cases hb : s.epoch + 1 ≥ e0 + 256
    · left; omega
    · right
      have htok' : s'.token = (s.epoch + 1) % 256 := by rw [htok, h2]; unfold wrapAdd8; omega
      refine ⟨by omega, by rw [htok', hep], ?_, ?_⟩
      · intro t ht
        obtain ⟨e, he1, he2, he3⟩ := h3 t ht
        exact ⟨e, he1, by omega, he3⟩
      · have hz : (probeToks eff).count s'.token = 0 := by
          rw [List.count_eq_zero]
          intro hmem
          obtain ⟨e, he1, he2, he3⟩ := h3 _ hmem
          rw [htok'] at he3
          omega
        have hne : ¬ s'.epoch = e0 := by omega
        have hc : ¬ s'.conn = .connected := hconn
        simp [hz, hne, hc]

section
variable (E : Env) (e0 base : Nat)

theorem TimInv.core : CoreC E (TimInv e0 base) := CoreC.of_frame E (TimInv.frame e0 base)

theorem TimInv.bumpModS (f : State → State) (h : ∀ s, (f s).token = wrapAdd8 s.token ∧ (f s).epoch = s.epoch + 1 ∧ (f s).conn ≠ .connected) :
    PresC (TimInv e0 base) (modS f) :=
  ⟨fun c hc => by simp only [modS_run]; exact TimInv.bump (f c.s) (h c.s).1 (h c.s).2.1 (h c.s).2.2 hc⟩

theorem TimInv.reset : PresC (TimInv e0 base) Foca.reset := by
  unfold Foca.reset
  exact TimInv.bumpModS e0 base _ (fun _ => ⟨rfl, rfl, by simp⟩)

include E in
theorem TimInv.becomeUndead : PresC (TimInv e0 base) Foca.becomeUndead := by
  unfold Foca.becomeUndead
  presc
  · exact TimInv.bumpModS e0 base _ (fun _ => ⟨rfl, rfl, by simp⟩)
  · exact (TimInv.core E e0 base).emitNP _ rfl

/-- becoming active from the disconnected state starts exactly one probe loop, in the current epoch -/
theorem TimInv.becomeConnected_at (s0 : State) (eff0 : List Effect) (h0 : TimInv e0 base s0 eff0)
    (hcn : s0.conn = .disconnected) : PresCAt (TimInv e0 base) s0 eff0 (Foca.becomeConnected E) := by
  have K := TimInv.core E e0 base
  unfold Foca.becomeConnected
  apply PresCAt.getS_bind
  apply PresCAt.ite
  · intro _; exact PresCAt.panicAt _
  · intro _
    apply PresCAt.modS_bind
    apply PresCAt.emit_bind
    refine PresCAt.of_presC ?_ ?_
    · unfold TimInv at h0 ⊢
      rcases h0 with h | ⟨h1, h2, h3, h4⟩
      · exact Or.inl h
      · right
        refine ⟨h1, h2, ?_, ?_⟩
        · intro t ht
          rw [probeToks_append, List.mem_append] at ht
          rcases ht with ht | ht
          · exact h3 t ht
          · simp [probeToks] at ht
            exact ⟨s0.epoch, h1, Nat.le_refl _, by rw [ht, h2]⟩
        · rw [hcn] at h4
          have hz : (if Conn.disconnected = Conn.connected then 1 else 0) = 0 := rfl
          rw [hz] at h4
          rw [probeToks_append, List.count_append]
          have h1c : (probeToks [Effect.timer s0.cfg.probePeriod (Timer.probe s0.token)]).count s0.token = 1 := by
            simp [probeToks]
          simp only [h1c, if_true]
          omega
    · presc
      all_goals exact K.emitNP _ rfl

/-- going idle ends the epoch; becoming active — only ever from the disconnected state — starts exactly one probe
    loop in the current epoch -/
theorem TimInv.adjustConnectionState : PresC (TimInv e0 base) (Foca.adjustConnectionState E) := by
  have K := TimInv.core E e0 base
  constructor
  intro c hc
  unfold Foca.adjustConnectionState
  simp only [bind_run, getS_run]
  cases hcn : c.s.conn with
  | undead => exact hc
  | connected =>
    simp only
    by_cases hnum : (c.s.numActive == 0) = true
    · simp only [hnum, if_true]
      have : PresC (TimInv e0 base) (Foca.becomeDisconnected E) := by
        unfold Foca.becomeDisconnected
        presc
        · exact TimInv.bumpModS e0 base _ (fun _ => ⟨rfl, rfl, by simp⟩)
        · exact K.emitNP _ rfl
      exact this.run c hc
    · simp only [hnum, Bool.false_eq_true, if_false, pure_run]
      exact hc
  | disconnected =>
    simp only
    by_cases hnum : c.s.numActive > 0
    · simp only [hnum, if_true]
      exact (TimInv.becomeConnected_at E e0 base c.s c.eff hc hcn).run c rfl rfl
    · simp only [hnum, if_false, pure_run]
      exact hc

theorem TimInv.leaves : LeavesC E (TimInv e0 base) probeTimer where
  plain := fun _ _ h => h
  keep := (TimInv.core E e0 base).keep
  emitOther := (TimInv.core E e0 base).emitNP
  removeDown := (TimInv.core E e0 base).removeDown
  membersNext := (TimInv.core E e0 base).membersNext
  sendMessage := (TimInv.core E e0 base).sendMessage
  applyUpdate := (TimInv.core E e0 base).applyUpdate
  applyExistingReport := (TimInv.core E e0 base).applyExistingReport
  reset := TimInv.reset e0 base
  becomeUndead := TimInv.becomeUndead E e0 base
  adjustConnectionState := TimInv.adjustConnectionState E e0 base


/-- "nothing the timer accounting looks at has changed since `c0`" -/
def QuietSince (c0 : Ctx) (s : State) (eff : List Effect) : Prop :=
  s.conn = c0.s.conn ∧ s.token = c0.s.token ∧ s.epoch = c0.s.epoch ∧ probeToks eff = probeToks c0.eff

theorem QuietSince.frame (c0 : Ctx) : TimerFrame (QuietSince c0) := by
  intro s s' eff eff' h1 h2 h3 h4 h
  unfold QuietSince at *
  rw [h1, h2, h3, h4]
  exact h

/-- what a re-armed probe round looks like from `c0` -/
def Rearmed (c0 : Ctx) (r : R Unit) : Prop :=
  match r with
  | .ok _ c' => QuietSince c0 c'.s (c'.eff.dropLast) ∧
      ∃ p, c'.eff = c'.eff.dropLast ++ [.timer p (.probe c0.s.token)]
  | .err e c' => (e = .incompleteProbe ∧ QuietSince c0 c'.s (c'.eff.dropLast) ∧
      ∃ p, c'.eff = c'.eff.dropLast ++ [.timer p (.probe c0.s.token)]) ∨
      (e ≠ .incompleteProbe ∧ QuietSince c0 c'.s c'.eff)
  | .stuck _ => True

theorem probeSuspectFailed_no_err (c : Ctx) (e : ErrKind) (c' : Ctx) : probeSuspectFailed E c ≠ .err e c' := by
  unfold probeSuspectFailed
  simp only [bind_run, getS_run, modS_run]
  cases htf : c.s.probe.takeFailed.1 with
  | none => simp
  | some failed =>
    simp only []
    cases happ : applyExisting c.s.ms ⟨failed.id, failed.inc, .suspect⟩ (fun _ => true) with
    | none =>
      have hrun := applyExistingReport_none E (c := { c with s := { c.s with probe := c.s.probe.takeFailed.2 } }) happ
      simp only [bind_run]
      erw [hrun]
      simp
    | some r =>
      obtain ⟨ms', sm⟩ := r
      obtain ⟨c3, hrun, _⟩ := applyExistingReport_some E
        (c := { c with s := { c.s with probe := c.s.probe.takeFailed.2 } }) happ
      simp only [bind_run]
      erw [hrun]
      simp only []
      cases hact : sm.activeNow <;> simp [hact]

theorem membersNext_no_err (c : Ctx) (e : ErrKind) (c' : Ctx) : membersNext c ≠ .err e c' := by
  unfold Foca.membersNext
  by_cases hs : needsShuffle c.s.cursor c.s.ms.length = true
  · simp only [hs, if_true]
    unfold drawShuffle
    cases hd : c.orc.draws with
    | nil => simp
    | cons d rest =>
      cases d with
      | idx k => simp
      | perm p =>
        simp only
        by_cases hperm : (p.filterMap (fun i => c.s.ms[i]?)).isPerm c.s.ms = true <;> simp [hperm]
  · simp [hs]

theorem probeStartNext_no_incomplete (c c' : Ctx) : probeStartNext E c ≠ .err .incompleteProbe c' := by
  unfold probeStartNext
  simp only [bind_run]
  cases hm : membersNext c with
  | stuck x => simp
  | err e cc => exact absurd hm (membersNext_no_err c e cc)
  | ok r cc =>
    simp only
    cases r with
    | none => simp
    | some member =>
      simp only [bind_run, modS_run, getS_run]
      have hs := sendMessage_spec E member.id (.ping ({ cc.s with probe := cc.s.probe.start member } : State).probe.number)
        { cc with s := { cc.s with probe := cc.s.probe.start member } }
      cases hsend : sendMessage E member.id (.ping ({ cc.s with probe := cc.s.probe.start member } : State).probe.number)
          { cc with s := { cc.s with probe := cc.s.probe.start member } } with
      | stuck x => simp
      | ok u c4 => simp
      | err e c4 =>
        rw [hsend] at hs
        simp only
        intro h
        have h1 := hs.1
        simp at h
        rw [h.1] at h1
        cases h1

/-- the common tail of `probe_random_member`: suspect the failed target, ping the next member, re-arm -/
theorem probeTail_rearms (c0 : Ctx) (b : Bool) (c1 : Ctx) (h1 : QuietSince c0 c1.s c1.eff) :
    Rearmed c0 ((do
      probeSuspectFailed E
      probeStartNext E
      let s ← getS
      emit (.timer s.cfg.probePeriod (.probe s.token))
      if b then throwE .incompleteProbe) c1) := by
  have K := CoreC.of_frame E (QuietSince.frame c0)
  unfold Rearmed
  rw [bind_run]
  have h2 := K.probeSuspectFailed.run c1 h1
  cases hr2 : probeSuspectFailed E c1 with
  | stuck x => trivial
  | err e c2 =>
    rw [hr2] at h2
    simp only
    right
    refine ⟨?_, h2⟩
    intro he
    subst he
    exact probeSuspectFailed_no_err E _ _ _ hr2
  | ok u2 c2 =>
    rw [hr2] at h2
    simp only at h2 ⊢
    rw [bind_run]
    have h3 := K.probeStartNext.run c2 h2
    cases hr3 : probeStartNext E c2 with
    | stuck x => trivial
    | err e c3 =>
      rw [hr3] at h3
      simp only
      right
      refine ⟨?_, h3⟩
      intro he
      subst he
      exact probeStartNext_no_incomplete E _ _ hr3
    | ok u3 c3 =>
      rw [hr3] at h3
      simp only at h3 ⊢
      rw [bind_run, getS_run]
      simp only []
      rw [bind_run, emit_run]
      simp only []
      obtain ⟨q1, q2, q3, q4⟩ := h3
      cases b with
      | true =>
        simp only [if_true, throwE_run]
        left
        refine ⟨by first | rfl | trivial, ?_, ?_⟩
        · simp only [List.dropLast_concat]
          exact ⟨q1, q2, q3, q4⟩
        · exact ⟨c3.s.cfg.probePeriod, by simp only [List.dropLast_concat, q2]⟩
      | false =>
        simp only [Bool.false_eq_true, if_false, pure_run]
        refine ⟨?_, ?_⟩
        · simp only [List.dropLast_concat]
          exact ⟨q1, q2, q3, q4⟩
        · exact ⟨c3.s.cfg.probePeriod, by simp only [List.dropLast_concat, q2]⟩

/-- **The probe round re-arms its loop exactly once.** `probe_random_member` keeps connection state, token and
    epoch, and — unless a send fails with `Encode` (a header larger than the packet) — ends by scheduling exactly
    one probe timer of the current epoch; `IncompleteProbeCycle` is reported only after that. -/
theorem probeRandomMember_rearms (c : Ctx) : Rearmed c (probeRandomMember E c) := by
  unfold Foca.probeRandomMember
  rw [bind_run, getS_run]
  simp only []
  by_cases hdbg : (E.debug && c.s.conn != .connected) = true
  · simp only [hdbg, if_true, panicAt_run, Rearmed]
  · simp only [hdbg, Bool.false_eq_true, if_false]
    by_cases hinc : (!c.s.probe.validate) = true
    · simp only [hinc, if_true]
      rw [bind_run, modS_run]
      simp only []
      exact probeTail_rearms E c true _ ⟨rfl, rfl, rfl, rfl⟩
    · have hinc' : (!c.s.probe.validate) = false := by simpa using hinc
      simp only [hinc', Bool.false_eq_true, if_false]
      exact probeTail_rearms E c false c ⟨rfl, rfl, rfl, rfl⟩

end
end Foca
