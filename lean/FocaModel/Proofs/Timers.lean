/-
  The recurring loops over whole histories (probe round, periodic announce, announce-to-down, gossip): while an
  instance is connected it has exactly one outstanding effective timer of every enabled loop, and none otherwise
  (effective = carrying the current token), provided the `u8` token does not wrap onto a timer that is still
  outstanding (the property's "fewer than 256 epoch changes between issue and delivery").
-/
import FocaModel.Proofs.Quiet
import FocaModel.Proofs.Units
import FocaModel.Props.C13
namespace Foca

def LoopKind.no : LoopKind → Nat
  | .probe => 0 | .pa => 1 | .pad => 2 | .pg => 3

theorem kindTimer_of_other_loop (k : LoopKind) (p : Nat) (t : Timer) (h : t.loopNo ≠ some k.no) :
    kindTimer k (.timer p t) = false := by
  cases k <;> cases t <;> simp [Timer.loopNo, LoopKind.no] at h <;> rfl

def connNat (s : State) : Nat := if s.conn = .connected then 1 else 0

/-- inside one call that started at epoch `e0` with `base` effective timers of loop `k` outstanding from before -/
def TimInv (k : LoopKind) (e0 base : Nat) (s : State) (eff : List Effect) : Prop :=
  s.epoch ≥ e0 + 256 ∨
  (e0 ≤ s.epoch ∧ s.token = s.epoch % 256 ∧
   (∀ t ∈ loopToks k eff, ∃ e, e0 ≤ e ∧ e ≤ s.epoch ∧ t = e % 256) ∧
   (loopToks k eff).count s.token + (if s.epoch = e0 then base else 0) ≤ connNat s ∧
   (k.en s.cfg = true → (loopToks k eff).count s.token + (if s.epoch = e0 then base else 0) = connNat s))

theorem TimInv.frame (k : LoopKind) (e0 base : Nat) : TimerFrame k (TimInv k e0 base) := by
  intro s s' eff eff' h1 h2 h3 hen h4 h
  unfold TimInv connNat at *
  rw [h1, h2, h3, h4]
  rcases h with h | ⟨a, b, c, d, e⟩
  · exact Or.inl h
  · exact Or.inr ⟨a, b, c, d, fun h' => e (hen h')⟩

/-- an epoch change (token and epoch move on together, the instance is not connected afterwards) -/
theorem TimInv.bump {k : LoopKind} {e0 base : Nat} {s : State} {eff : List Effect} (s' : State)
    (htok : s'.token = wrapAdd8 s.token) (hep : s'.epoch = s.epoch + 1) (hconn : s'.conn ≠ .connected)
    (h : TimInv k e0 base s eff) : TimInv k e0 base s' eff := by
  unfold TimInv at *
  rcases h with h | ⟨h1, h2, h3, _, _⟩
  · left; omega
  · by_cases hb : s.epoch + 1 ≥ e0 + 256
    · left; omega
    · right
      have htok' : s'.token = (s.epoch + 1) % 256 := by rw [htok, h2]; unfold wrapAdd8; omega
      have hz : (loopToks k eff).count s'.token = 0 := by
        rw [List.count_eq_zero]
        intro hmem
        obtain ⟨e, he1, he2, he3⟩ := h3 _ hmem
        rw [htok'] at he3
        omega
      have hne : ¬ s'.epoch = e0 := by omega
      have hc : connNat s' = 0 := by unfold connNat; simp [hconn]
      refine ⟨by omega, by rw [htok', hep], ?_, by simp [hz, hne, hc], fun _ => by simp [hz, hne, hc]⟩
      intro t ht
      obtain ⟨e, he1, he2, he3⟩ := h3 t ht
      exact ⟨e, he1, by omega, he3⟩

/-- the loops `become_connected` starts: one timer of loop `k`, in the current epoch, iff the loop is enabled -/
theorem loopToks_expectedLoops (k : LoopKind) (s : State) :
    loopToks k (C13.expectedLoops s) = if k.en s.cfg then [s.token] else [] := by
  unfold C13.expectedLoops loopToks
  cases k <;> cases hpa : s.cfg.pa <;> cases hpad : s.cfg.pad <;> cases hpg : s.cfg.pg <;>
    simp [LoopKind.sel, LoopKind.en, hpa, hpad, hpg]

section
variable (E : Env) (k : LoopKind) (e0 base : Nat)

theorem TimInv.core : CoreC E k (TimInv k e0 base) := CoreC.of_frame E (TimInv.frame k e0 base).quiet

theorem TimInv.bumpModS (f : State → State)
    (h : ∀ s, (f s).token = wrapAdd8 s.token ∧ (f s).epoch = s.epoch + 1 ∧ (f s).conn ≠ .connected) :
    PresC (TimInv k e0 base) (modS f) :=
  ⟨fun c hc => by simp only [modS_run]; exact TimInv.bump (f c.s) (h c.s).1 (h c.s).2.1 (h c.s).2.2 hc⟩

theorem TimInv.reset : PresC (TimInv k e0 base) Foca.reset := by
  unfold Foca.reset
  exact TimInv.bumpModS k e0 base _ (fun _ => ⟨rfl, rfl, by simp⟩)

include E in
theorem TimInv.becomeUndead : PresC (TimInv k e0 base) Foca.becomeUndead := by
  unfold Foca.becomeUndead
  presc
  · exact TimInv.bumpModS k e0 base _ (fun _ => ⟨rfl, rfl, by simp⟩)
  · exact (TimInv.core E k e0 base).emitNP _ (kindTimer_of_not_loop k _ rfl)

/-- going idle ends the epoch; becoming active — only ever from the disconnected state — starts exactly one loop
    of every enabled kind in the current epoch -/
theorem TimInv.adjustConnectionState : PresC (TimInv k e0 base) (Foca.adjustConnectionState E) := by
  have K := TimInv.core E k e0 base
  constructor
  intro c hc
  unfold Foca.adjustConnectionState
  rw [bind_run, getS_run]
  simp only []
  cases hcn : c.s.conn with
  | undead => simp only [pure_run]; exact hc
  | connected =>
    simp only []
    by_cases hnum : (c.s.numActive == 0) = true
    · simp only [hnum, if_true]
      have : PresC (TimInv k e0 base) (Foca.becomeDisconnected E) := by
        unfold Foca.becomeDisconnected
        presc
        · exact TimInv.bumpModS k e0 base _ (fun _ => ⟨rfl, rfl, by simp⟩)
        · exact K.emitNP _ (kindTimer_of_not_loop k _ rfl)
      exact this.run c hc
    · simp only [hnum, Bool.false_eq_true, if_false, pure_run]
      exact hc
  | disconnected =>
    simp only []
    by_cases hnum : c.s.numActive > 0
    · simp only [hnum, if_true]
      obtain ⟨c', hrun, hconn, htok, heff⟩ := C13.loops_started_on_connect E c (by omega)
      rw [hrun]
      simp only
      -- everything but connection state and effects is as before (the exact run is known)
      have hst : c'.s.epoch = c.s.epoch ∧ c'.s.cfg = c.s.cfg := by
        unfold Foca.becomeConnected at hrun
        simp only [bind_run, getS_run] at hrun
        have hdbg : (E.debug && c.s.numActive == 0) = false := by
          have : c.s.numActive ≠ 0 := by omega
          simp [this]
        simp only [hdbg, Bool.false_eq_true, if_false, modS_run, emit_run] at hrun
        cases hpa : c.s.cfg.pa <;> cases hpad : c.s.cfg.pad <;> cases hpg : c.s.cfg.pg <;>
          simp [hpa, hpad, hpg] at hrun <;> rw [← hrun] <;> exact ⟨rfl, rfl⟩
      unfold TimInv at hc ⊢
      rcases hc with h | ⟨h1, h2, h3, h4, h5⟩
      · left; rw [hst.1]; exact h
      · right
        have hcn0 : connNat c.s = 0 := by unfold connNat; simp [hcn]
        have hcn1 : connNat c'.s = 1 := by unfold connNat; simp [hconn]
        have hn0 : (loopToks k c.eff).count c.s.token + (if c.s.epoch = e0 then base else 0) = 0 := by omega
        have htoks : loopToks k c'.eff = loopToks k c.eff ++ (if k.en c.s.cfg then [c.s.token] else []) := by
          rw [heff, loopToks_append, loopToks_append, loopToks_expectedLoops]
          simp [loopToks]
        refine ⟨by rw [hst.1]; exact h1, by rw [htok, hst.1]; exact h2, ?_, ?_, ?_⟩
        · intro t ht
          rw [htoks, List.mem_append] at ht
          rcases ht with ht | ht
          · obtain ⟨e, a, b, d⟩ := h3 t ht
            exact ⟨e, a, by rw [hst.1]; exact b, d⟩
          · split at ht
            · simp at ht; exact ⟨c.s.epoch, h1, by rw [hst.1]; exact Nat.le_refl _, by rw [ht, h2]⟩
            · simp at ht
        · rw [htoks, htok, hst.1, hcn1, List.count_append]
          split <;> simp <;> omega
        · intro hen
          rw [hst.2] at hen
          rw [htoks, htok, hst.1, hcn1, List.count_append]
          simp [hen]
          omega
    · simp only [hnum, if_false, pure_run]
      exact hc

/-- `set_config` can switch a periodic task off, never on -/
theorem TimInv.setConfig (cfg : Config) : PresC (TimInv k e0 base) (Foca.setConfig cfg) := by
  constructor
  intro c hc
  unfold Foca.setConfig
  rw [bind_run, getS_run]
  simp only []
  by_cases hinv : Gen.setConfigInvalid c.s.cfg cfg = true
  · simp only [hinv, if_true, throwE_run]; exact hc
  · have hinv' : Gen.setConfigInvalid c.s.cfg cfg = false := by simpa using hinv
    simp only [hinv', Bool.false_eq_true, if_false, modS_run]
    refine TimInv.frame k e0 base c.s _ c.eff _ rfl rfl rfl ?_ rfl hc
    intro hen
    obtain ⟨_, _, hpa, hpad, hpg⟩ := C13.set_config_cannot_enable_loops c.s.cfg cfg hinv'
    cases k with
    | probe => rfl
    | pa =>
      simp only [LoopKind.en] at hen ⊢
      cases h : c.s.cfg.pa with
      | none => rw [hpa h] at hen; simp at hen
      | some p => rfl
    | pad =>
      simp only [LoopKind.en] at hen ⊢
      cases h : c.s.cfg.pad with
      | none => rw [hpad h] at hen; simp at hen
      | some p => rfl
    | pg =>
      simp only [LoopKind.en] at hen ⊢
      cases h : c.s.cfg.pg with
      | none => rw [hpg h] at hen; simp at hen
      | some p => rfl

theorem TimInv.leaves : LeavesC E (TimInv k e0 base) (kindTimer k) where
  plain := fun e _ h => kindTimer_of_not_loop k e h
  keep := (TimInv.core E k e0 base).keep
  emitOther := (TimInv.core E k e0 base).emitNP
  removeDown := (TimInv.core E k e0 base).removeDown
  membersNext := (TimInv.core E k e0 base).membersNext
  sendMessage := (TimInv.core E k e0 base).sendMessage
  applyUpdate := (TimInv.core E k e0 base).applyUpdate
  applyExistingReport := (TimInv.core E k e0 base).applyExistingReport
  reset := TimInv.reset k e0 base
  becomeUndead := TimInv.becomeUndead E k e0 base
  adjustConnectionState := TimInv.adjustConnectionState E k e0 base
  setConfig := TimInv.setConfig k e0 base

/-- the delivery of a loop timer of *another* kind keeps the accounting of loop `k` -/
theorem TimInv.otherLoop (t : Timer) (ht : t.isLoop = true) (hk : t.loopNo ≠ some k.no) :
    PresC (TimInv k e0 base) (Foca.handleTimer E t) :=
  (TimInv.leaves E k e0 base).loopBranch t ht
    (fun p t' h => (TimInv.core E k e0 base).emitNP _ (kindTimer_of_other_loop k p t' (by rw [h]; exact hk)))

/-- what a re-armed loop looks like from `c0`: everything as before, plus one timer of loop `k` in the current epoch -/
def Rearmed (k : LoopKind) (c0 : Ctx) (s : State) (eff : List Effect) : Prop :=
  s.conn = c0.s.conn ∧ s.token = c0.s.token ∧ s.epoch = c0.s.epoch ∧ s.cfg = c0.s.cfg ∧
    loopToks k eff = loopToks k c0.eff ++ [c0.s.token]

/-- outcome of a probe round started in `c0` -/
def ProbeRound (c0 : Ctx) (r : R Unit) : Prop :=
  match r with
  | .ok _ c' => Rearmed .probe c0 c'.s c'.eff
  | .err e c' => (e = .incompleteProbe ∧ Rearmed .probe c0 c'.s c'.eff) ∨
      (e = .encode ∧ QuietSince .probe c0 c'.s c'.eff)
  | .stuck _ => True

theorem probeSuspectFailed_no_err (c : Ctx) (e : ErrKind) (c' : Ctx) : probeSuspectFailed E c ≠ .err e c' := by
  unfold probeSuspectFailed
  simp only [bind_run, getS_run, modS_run]
  cases htf : c.s.probe.takeFailed.1 with
  | none => simp
  | some failed =>
    simp only []
    cases happ : applyExisting c.s.ms ⟨failed.id, failed.inc, .suspect⟩ (fun _ => true) with
    | none =>
      have hrun := applyExistingReport_none E (c := { c with s := { c.s with probe := c.s.probe.takeFailed.2 } }) happ
      simp only [bind_run]
      erw [hrun]
      simp
    | some r =>
      obtain ⟨ms', sm⟩ := r
      obtain ⟨c3, hrun, _⟩ := applyExistingReport_some E
        (c := { c with s := { c.s with probe := c.s.probe.takeFailed.2 } }) happ
      simp only [bind_run]
      erw [hrun]
      simp only []
      cases hact : sm.activeNow <;> simp [hact]

theorem membersNext_no_err (c : Ctx) (e : ErrKind) (c' : Ctx) : membersNext c ≠ .err e c' := by
  unfold Foca.membersNext
  by_cases hs : needsShuffle c.s.cursor c.s.ms.length = true
  · simp only [hs, if_true]
    unfold drawShuffle
    cases hd : c.orc.draws with
    | nil => simp
    | cons d rest =>
      cases d with
      | idx k => simp
      | perm p =>
        simp only
        by_cases hperm : (p.filterMap (fun i => c.s.ms[i]?)).isPerm c.s.ms = true <;> simp [hperm]
  · simp [hs]

theorem probeStartNext_err_is_encode (c c' : Ctx) (e : ErrKind) (h : probeStartNext E c = .err e c') : e = .encode := by
  unfold probeStartNext at h
  simp only [bind_run] at h
  cases hm : membersNext c with
  | stuck x => rw [hm] at h; simp at h
  | err e2 cc => exact absurd hm (membersNext_no_err c e2 cc)
  | ok r cc =>
    rw [hm] at h
    simp only at h
    cases r with
    | none => simp at h
    | some member =>
      simp only [bind_run, modS_run, getS_run] at h
      have hs := sendMessage_spec E member.id (.ping ({ cc.s with probe := cc.s.probe.start member } : State).probe.number)
        { cc with s := { cc.s with probe := cc.s.probe.start member } }
      cases hsend : sendMessage E member.id (.ping ({ cc.s with probe := cc.s.probe.start member } : State).probe.number)
          { cc with s := { cc.s with probe := cc.s.probe.start member } } with
      | stuck x => rw [hsend] at h; simp at h
      | ok u c4 => rw [hsend] at h; simp at h
      | err e3 c4 =>
        rw [hsend] at hs h
        simp at h
        rw [← h.1]
        exact hs.1

/-- the common tail of `probe_random_member`: suspect the failed target, ping the next member, re-arm -/
theorem probeTail_rearms (c0 : Ctx) (b : Bool) (c1 : Ctx) (h1 : QuietSince .probe c0 c1.s c1.eff) :
    ProbeRound c0 ((do
      probeSuspectFailed E
      probeStartNext E
      let s ← getS
      emit (.timer s.cfg.probePeriod (.probe s.token))
      if b then throwE .incompleteProbe) c1) := by
  have K := CoreC.of_frame E (QuietSince.frame .probe c0)
  unfold ProbeRound
  rw [bind_run]
  have h2 := K.probeSuspectFailed.run c1 h1
  cases hr2 : probeSuspectFailed E c1 with
  | stuck x => trivial
  | err e c2 => exact absurd hr2 (probeSuspectFailed_no_err E _ _ _)
  | ok u2 c2 =>
    rw [hr2] at h2
    simp only at h2 ⊢
    rw [bind_run]
    have h3 := K.probeStartNext.run c2 h2
    cases hr3 : probeStartNext E c2 with
    | stuck x => trivial
    | err e c3 =>
      rw [hr3] at h3
      simp only
      right
      exact ⟨probeStartNext_err_is_encode E _ _ _ hr3, h3⟩
    | ok u3 c3 =>
      rw [hr3] at h3
      simp only at h3 ⊢
      rw [bind_run, getS_run]
      simp only []
      rw [bind_run, emit_run]
      simp only []
      obtain ⟨q1, q2, q3, q4, q5⟩ := h3
      have hre : Rearmed .probe c0 c3.s (c3.eff ++ [.timer c3.s.cfg.probePeriod (.probe c3.s.token)]) := by
        refine ⟨q1, q2, q3, q4, ?_⟩
        rw [loopToks_append, q5, q2]
        simp [loopToks, LoopKind.sel]
      cases b with
      | true =>
        simp only [if_true, throwE_run]
        exact Or.inl ⟨by first | rfl | trivial, hre⟩
      | false =>
        simp only [Bool.false_eq_true, if_false, pure_run]
        exact hre

/-- **The probe round re-arms its loop exactly once.** `probe_random_member` keeps connection state, token, epoch
    and configuration, and — unless a send fails with `Encode` (a header larger than the packet) — schedules
    exactly one probe timer of the current epoch; `IncompleteProbeCycle` is reported only after that. -/
theorem probeRandomMember_rearms (c : Ctx) : ProbeRound c (probeRandomMember E c) := by
  unfold Foca.probeRandomMember
  rw [bind_run, getS_run]
  simp only []
  by_cases hdbg : (E.debug && c.s.conn != .connected) = true
  · simp only [hdbg, if_true, panicAt_run, ProbeRound]
  · simp only [hdbg, Bool.false_eq_true, if_false]
    by_cases hinc : (!c.s.probe.validate) = true
    · simp only [hinc, if_true]
      rw [bind_run, modS_run]
      simp only []
      exact probeTail_rearms E c true _ ⟨rfl, rfl, rfl, rfl, rfl⟩
    · have hinc' : (!c.s.probe.validate) = false := by simpa using hinc
      simp only [hinc', Bool.false_eq_true, if_false]
      exact probeTail_rearms E c false c ⟨rfl, rfl, rfl, rfl, rfl⟩

/-- a probe round whose previous cycle was complete (no target, or the indirect stage was reached) can only fail
    on a send -/
theorem probeRandomMember_valid_err (c c' : Ctx) (e : ErrKind) (hv : c.s.probe.validate = true)
    (h : probeRandomMember E c = .err e c') : e = .encode := by
  unfold Foca.probeRandomMember at h
  rw [bind_run, getS_run] at h
  simp only [] at h
  by_cases hdbg : (E.debug && c.s.conn != .connected) = true
  · simp [hdbg, panicAt] at h
  · simp only [hdbg, Bool.false_eq_true, if_false, hv, Bool.not_true] at h
    rw [bind_run] at h
    cases hr2 : probeSuspectFailed E c with
    | stuck x => rw [hr2] at h; simp at h
    | err e2 c2 => exact absurd hr2 (probeSuspectFailed_no_err E _ _ _)
    | ok u2 c2 =>
      rw [hr2] at h
      simp only at h
      rw [bind_run] at h
      cases hr3 : probeStartNext E c2 with
      | stuck x => rw [hr3] at h; simp at h
      | err e3 c3 =>
        rw [hr3] at h
        simp at h
        rw [← h.1]
        exact probeStartNext_err_is_encode E _ _ _ hr3
      | ok u3 c3 =>
        rw [hr3] at h
        simp [bind_run, getS_run, emit_run] at h

/-- a periodic timer's outcome: re-armed exactly when it is effective and its task is still enabled — before
    anything is sent, so also when a send fails — and otherwise nothing the accounting looks at changes -/
def PeriodicRound (k : LoopKind) (tok : Nat) (c0 : Ctx) (r : R Unit) : Prop :=
  match r with
  | .ok _ c' => if tok = c0.s.token ∧ c0.s.conn = .connected ∧ k.en c0.s.cfg = true
      then Rearmed k c0 c'.s c'.eff else QuietSince k c0 c'.s c'.eff
  | .err _ c' => if tok = c0.s.token ∧ c0.s.conn = .connected ∧ k.en c0.s.cfg = true
      then Rearmed k c0 c'.s c'.eff else QuietSince k c0 c'.s c'.eff
  | .stuck _ => True

theorem rearmed_of_quiet {k : LoopKind} {c0 c1 : Ctx} (h1 : c1.s = c0.s) (h2 : loopToks k c1.eff = loopToks k c0.eff ++ [c0.s.token])
    {m : M Unit} (hm : PresC (QuietSince k c1) m) :
    match m c1 with
    | .ok _ c' => Rearmed k c0 c'.s c'.eff
    | .err _ c' => Rearmed k c0 c'.s c'.eff
    | .stuck _ => True := by
  have := hm.run c1 ⟨rfl, rfl, rfl, rfl, rfl⟩
  cases hr : m c1 with
  | stuck x => trivial
  | ok u c' =>
    rw [hr] at this
    obtain ⟨a, b, d, e, f⟩ := this
    exact ⟨by rw [a, h1], by rw [b, h1], by rw [d, h1], by rw [e, h1], by rw [f, h2]⟩
  | err e' c' =>
    rw [hr] at this
    obtain ⟨a, b, d, e, f⟩ := this
    exact ⟨by rw [a, h1], by rw [b, h1], by rw [d, h1], by rw [e, h1], by rw [f, h2]⟩

theorem periodicAnnounce_round (tok : Nat) (c : Ctx) : PeriodicRound .pa tok c (handleTimer E (.pa tok) c) := by
  have K := fun c1 => CoreC.of_frame E (QuietSince.frame .pa c1)
  unfold PeriodicRound Foca.handleTimer
  rw [bind_run, getS_run]
  simp only []
  by_cases hg : (tok == c.s.token && c.s.conn == .connected) = true
  · have hg' : tok = c.s.token ∧ c.s.conn = .connected := by simpa using hg
    simp only [hg, if_true]
    cases hpa : c.s.cfg.pa with
    | none =>
      have : ¬ (tok = c.s.token ∧ c.s.conn = .connected ∧ LoopKind.en .pa c.s.cfg = true) := by
        simp [LoopKind.en, hpa]
      simp only [pure_run, this, if_false]
      exact ⟨rfl, rfl, rfl, rfl, rfl⟩
    | some p =>
      have hen : tok = c.s.token ∧ c.s.conn = .connected ∧ LoopKind.en .pa c.s.cfg = true := by
        simp [LoopKind.en, hpa, hg'.1, hg'.2]
      simp only []
      rw [bind_run, emit_run]
      simp only []
      have := rearmed_of_quiet (k := .pa) (c0 := c) (c1 := { c with eff := c.eff ++ [.timer p.freq (.pa c.s.token)] }) rfl
        (by rw [loopToks_append]; simp [loopToks, LoopKind.sel]) ((K _).chooseAndSend p.num .announce)
      cases hr : chooseAndSend E p.num .announce { c with eff := c.eff ++ [.timer p.freq (.pa c.s.token)] } with
      | stuck x => trivial
      | ok u c' => rw [hr] at this; simp only [hen, and_self, if_true]; exact this
      | err e c' => rw [hr] at this; simp only [hen, and_self, if_true]; exact this
  · have : ¬ (tok = c.s.token ∧ c.s.conn = .connected ∧ LoopKind.en .pa c.s.cfg = true) := by
      intro h; apply hg; simp [h.1, h.2.1]
    simp only [hg, Bool.false_eq_true, if_false, pure_run, this]
    exact ⟨rfl, rfl, rfl, rfl, rfl⟩

theorem periodicAnnounceDown_round (tok : Nat) (c : Ctx) : PeriodicRound .pad tok c (handleTimer E (.pad tok) c) := by
  have K := fun c1 => CoreC.of_frame E (QuietSince.frame .pad c1)
  unfold PeriodicRound Foca.handleTimer
  rw [bind_run, getS_run]
  simp only []
  by_cases hg : (tok == c.s.token && c.s.conn == .connected) = true
  · have hg' : tok = c.s.token ∧ c.s.conn = .connected := by simpa using hg
    simp only [hg, if_true]
    cases hpad : c.s.cfg.pad with
    | none =>
      have : ¬ (tok = c.s.token ∧ c.s.conn = .connected ∧ LoopKind.en .pad c.s.cfg = true) := by
        simp [LoopKind.en, hpad]
      simp only [pure_run, this, if_false]
      exact ⟨rfl, rfl, rfl, rfl, rfl⟩
    | some p =>
      have hen : tok = c.s.token ∧ c.s.conn = .connected ∧ LoopKind.en .pad c.s.cfg = true := by
        simp [LoopKind.en, hpad, hg'.1, hg'.2]
      simp only []
      rw [bind_run, emit_run]
      simp only []
      have := rearmed_of_quiet (k := .pad) (c0 := c) (c1 := { c with eff := c.eff ++ [.timer p.freq (.pad c.s.token)] }) rfl
        (by rw [loopToks_append]; simp [loopToks, LoopKind.sel]) ((K _).announceToDown p.num)
      cases hr : announceToDown E p.num { c with eff := c.eff ++ [.timer p.freq (.pad c.s.token)] } with
      | stuck x => trivial
      | ok u c' => rw [hr] at this; simp only [hen, and_self, if_true]; exact this
      | err e c' => rw [hr] at this; simp only [hen, and_self, if_true]; exact this
  · have : ¬ (tok = c.s.token ∧ c.s.conn = .connected ∧ LoopKind.en .pad c.s.cfg = true) := by
      intro h; apply hg; simp [h.1, h.2.1]
    simp only [hg, Bool.false_eq_true, if_false, pure_run, this]
    exact ⟨rfl, rfl, rfl, rfl, rfl⟩

theorem periodicGossip_round (tok : Nat) (c : Ctx) : PeriodicRound .pg tok c (handleTimer E (.pg tok) c) := by
  have K := fun c1 => CoreC.of_frame E (QuietSince.frame .pg c1)
  unfold PeriodicRound Foca.handleTimer
  rw [bind_run, getS_run]
  simp only []
  by_cases hg : (tok == c.s.token && c.s.conn == .connected) = true
  · have hg' : tok = c.s.token ∧ c.s.conn = .connected := by simpa using hg
    simp only [hg, if_true]
    cases hpg : c.s.cfg.pg with
    | none =>
      have : ¬ (tok = c.s.token ∧ c.s.conn = .connected ∧ LoopKind.en .pg c.s.cfg = true) := by
        simp [LoopKind.en, hpg]
      simp only [pure_run, this, if_false]
      exact ⟨rfl, rfl, rfl, rfl, rfl⟩
    | some p =>
      have hen : tok = c.s.token ∧ c.s.conn = .connected ∧ LoopKind.en .pg c.s.cfg = true := by
        simp [LoopKind.en, hpg, hg'.1, hg'.2]
      simp only []
      rw [bind_run, emit_run]
      simp only []
      have hm : PresC (QuietSince .pg { c with eff := c.eff ++ [.timer p.freq (.pg c.s.token)] })
          (if (!c.s.updates.isEmpty || !c.s.custom.isEmpty) = true then chooseAndSend E p.num .gossip else pure ()) := by
        split
        · exact (K _).chooseAndSend p.num .gossip
        · exact PresC.pure _
      have := rearmed_of_quiet (k := .pg) (c0 := c) (c1 := { c with eff := c.eff ++ [.timer p.freq (.pg c.s.token)] }) rfl
        (by rw [loopToks_append]; simp [loopToks, LoopKind.sel]) hm
      cases hr : (if (!c.s.updates.isEmpty || !c.s.custom.isEmpty) = true then chooseAndSend E p.num .gossip else pure ())
          { c with eff := c.eff ++ [.timer p.freq (.pg c.s.token)] } with
      | stuck x => trivial
      | ok u c' => rw [hr] at this; simp only [hen, and_self, if_true]; exact this
      | err e c' => rw [hr] at this; simp only [hen, and_self, if_true]; exact this
  · have : ¬ (tok = c.s.token ∧ c.s.conn = .connected ∧ LoopKind.en .pg c.s.cfg = true) := by
      intro h; apply hg; simp [h.1, h.2.1]
    simp only [hg, Bool.false_eq_true, if_false, pure_run, this]
    exact ⟨rfl, rfl, rfl, rfl, rfl⟩

end
end Foca
