/-
  The gossip rounds of one delivery are caused by the updates that name the receiver's own address: a refinement
  of `FanOut` (which charges one round to every update). `AddsA a k n m`: started with own address `a` and
  `num_indirect_probes = k`, `m` keeps both and adds at most `n` datagrams.
-/
import FocaModel.Proofs.FanOut
import FocaModel.Proofs.OwnInv
import FocaModel.Proofs.Frames
namespace Foca

/-- the own address is `a` -/
def AddrIs (a : Nat) (s : State) : Prop := s.id.addr = a

section
variable (E : Env) (a : Nat)

theorem AddrIs.base : Base E (AddrIs a) (fun _ => True) :=
  Base.of_frame
    (by intro s s' h hs; unfold AddrIs at *; rw [h]; exact hs)
    (by intro s s' h hs; unfold AddrIs at *; rw [h]; exact hs)
    (fun m => Pres.modS_of (fun s hs => hs))
    (fun f h => Pres.modS_of (fun s hs => by unfold AddrIs at *; rw [(h s).2.2.2.2.2.1]; exact hs))
    (fun f h => Pres.modS_of (fun s hs => by unfold AddrIs at *; rw [(h s).2.2.2.2.1]; exact hs))

/-- renewing the identity keeps the address -/
theorem AddrIs.attemptRejoin : Pres (AddrIs a) (Foca.attemptRejoin E) := by
  have B := AddrIs.base E a
  unfold Foca.attemptRejoin
  refine Pres.getS_with (fun s hs => ?_)
  split
  · exact Pres.pure _
  · rename_i newId hren
    have hnew : newId.addr = a := by rw [renew_addr hren]; exact hs
    split
    · exact Pres.pure _
    · split
      · exact Pres.pure _
      · unfold Foca.changeIdentity
        pres
        all_goals first
          | exact Pres.modS_of (fun _ _ => hnew)
          | exact B.addUpdate _ trivial
          | exact B.gossip
          | exact B.emit _
          | (unfold Foca.reset; exact Pres.modS_of (fun _ h => h))

theorem AddrIs.handleSelfUpdate (inc : Nat) (st : St) : Pres (AddrIs a) (Foca.handleSelfUpdate E inc st) := by
  have B := AddrIs.base E a
  unfold Foca.handleSelfUpdate
  pres
  all_goals first
    | exact AddrIs.attemptRejoin E a
    | exact B.becomeUndead
    | exact B.gossip
    | exact Pres.modS_of (fun _ h => h)

theorem AddrIs.applyOne (u : Member) (b : Bool) : Pres (AddrIs a) (Foca.applyOne E u b) := by
  have B := AddrIs.base E a
  unfold Foca.applyOne
  pres
  all_goals first
    | exact AddrIs.handleSelfUpdate E a _ _
    | exact B.applyUpdate _ _ trivial

end

/-- after the run: address and `num_indirect_probes` as before, at most `n` more datagrams -/
def AddsAPost {α} (a k n : Nat) (c : Ctx) (r : R α) : Prop :=
  match r with
  | .ok _ c' => c'.s.id.addr = a ∧ c'.s.cfg.k = k ∧ sendCount c'.eff ≤ sendCount c.eff + n
  | .err _ c' => c'.s.id.addr = a ∧ c'.s.cfg.k = k ∧ sendCount c'.eff ≤ sendCount c.eff + n
  | .stuck _ => True

structure AddsA {α} (a k n : Nat) (m : M α) : Prop where
  run : ∀ c, c.s.id.addr = a → c.s.cfg.k = k → AddsAPost a k n c (m c)

section
variable (E : Env) {a k : Nat}

theorem AddsA.of {α} {m : M α} {n : Nat} (h1 : Adds k n m) (h2 : Pres (AddrIs a) m) : AddsA a k n m := by
  constructor
  intro c ha hk
  have r1 := h1.run c hk
  have r2 := h2.run c ha
  unfold AddsPost at r1
  unfold AddsAPost
  cases hm : m c with
  | stuck x => trivial
  | err e c' => rw [hm] at r1 r2; exact ⟨r2, r1.1, r1.2⟩
  | ok x c' => rw [hm] at r1 r2; exact ⟨r2, r1.1, r1.2⟩

theorem AddsA.bind {α β} {m : M α} {f : α → M β} {n n1 n2 : Nat} (hm : AddsA a k n1 m) (hf : ∀ x, AddsA a k n2 (f x))
    (hn : n1 + n2 ≤ n) : AddsA a k n (m >>= f) := by
  constructor
  intro c ha hk
  have h1 := hm.run c ha hk
  simp only [bind_run]
  unfold AddsAPost at *
  cases hmc : m c with
  | stuck x => trivial
  | err e c' => rw [hmc] at h1; exact ⟨h1.1, h1.2.1, by have := h1.2.2; omega⟩
  | ok x c' =>
    rw [hmc] at h1
    have h2 := (hf x).run c' h1.1 h1.2.1
    simp only
    cases hfc : f x c' with
    | stuck y => trivial
    | err e c'' => rw [hfc] at h2; exact ⟨h2.1, h2.2.1, by have := h1.2.2; have := h2.2.2; omega⟩
    | ok y c'' => rw [hfc] at h2; exact ⟨h2.1, h2.2.1, by have := h1.2.2; have := h2.2.2; omega⟩

theorem AddsA.pure {α} (x : α) {n : Nat} : AddsA a k n (Pure.pure x : M α) :=
  ⟨fun c ha hk => ⟨ha, hk, by simp [pure_run]⟩⟩

theorem AddsA.mono {α} {m : M α} {n n' : Nat} (h : AddsA a k n m) (hn : n ≤ n') : AddsA a k n' m := by
  constructor
  intro c ha hk
  have := h.run c ha hk
  unfold AddsAPost at *
  cases hm : m c with
  | stuck x => trivial
  | err e c' => rw [hm] at this; exact ⟨this.1, this.2.1, by have := this.2.2; omega⟩
  | ok x c' => rw [hm] at this; exact ⟨this.1, this.2.1, by have := this.2.2; omega⟩

theorem AddsA.getS_with {β} {n : Nat} {f : State → M β} (h : ∀ s, s.id.addr = a → s.cfg.k = k → AddsA a k n (f s)) :
    AddsA a k n (Foca.getS >>= f) :=
  ⟨fun c ha hk => by simp only [bind_run, getS_run]; exact (h c.s ha hk).run c ha hk⟩

theorem AddsA.applyUpdate (u : Member) (b : Bool) : AddsA a k 0 (Foca.applyUpdate E u b) :=
  AddsA.of (Adds.applyUpdate E u b) ((AddrIs.base E a).applyUpdate _ _ trivial)

/-- the cost of one update: a round of gossip if it names the own address and is not an Alive claim, nothing
    otherwise -/
def selfCost (a k : Nat) (u : Member) : Nat := if u.id.addr = a ∧ u.st ≠ .alive then k else 0

/-- the updates of a list that name address `a` as Suspect or Down -/
def selfUpdates (a : Nat) (us : List Member) : Nat := us.countP (fun u => u.id.addr == a && u.st != .alive)

theorem AddsA.applyOne (u : Member) (b : Bool) : AddsA a k (selfCost a k u) (Foca.applyOne E u b) := by
  by_cases hu : u.id.addr = a ∧ u.st ≠ .alive
  · have : selfCost a k u = k := by simp [selfCost, hu]
    rw [this]
    exact AddsA.of (Adds.applyOne E u b) (AddrIs.applyOne E a u b)
  · have : selfCost a k u = 0 := by simp only [selfCost, hu, if_false]
    rw [this]
    unfold Foca.applyOne
    refine AddsA.getS_with (fun s hs _ => ?_)
    split
    · rename_i heq
      have hid : u.id = s.id := by simpa using heq
      have hst : u.st = .alive := by
        cases hst : u.st with
        | alive => rfl
        | suspect => exact absurd ⟨by rw [hid]; exact hs, by rw [hst]; simp⟩ hu
        | down => exact absurd ⟨by rw [hid]; exact hs, by rw [hst]; simp⟩ hu
      unfold Foca.handleSelfUpdate
      rw [hst]
      exact AddsA.pure _
    · split
      · exact AddsA.bind (AddsA.applyUpdate E _ _) (fun _ => AddsA.pure (n := 0) _) (by omega)
      · exact AddsA.bind (AddsA.applyUpdate E _ _) (fun _ => AddsA.pure (n := 0) _) (by omega)

theorem AddsA.applyLoop (b : Bool) (us : List Member) :
    AddsA a k (k * selfUpdates a us) (Foca.applyLoop E b us) := by
  induction us with
  | nil => unfold Foca.applyLoop; exact AddsA.pure _
  | cons u rest ih =>
    unfold Foca.applyLoop
    refine AddsA.bind (AddsA.applyOne E u b) (fun _ => ih) ?_
    unfold selfUpdates selfCost
    by_cases hu : u.id.addr = a ∧ u.st ≠ .alive
    · have : (u.id.addr == a && u.st != .alive) = true := by simp [hu.1, hu.2]
      rw [if_pos hu, List.countP_cons, this]; simp only [if_true, Nat.mul_add]; omega
    · have : (u.id.addr == a && u.st != .alive) = false := by
        cases h : (u.id.addr == a && u.st != .alive) with
        | false => rfl
        | true =>
          exfalso; apply hu
          simp only [Bool.and_eq_true, beq_iff_eq, bne_iff_ne, ne_eq] at h
          exact h
      rw [if_neg hu, List.countP_cons, this]; simp

theorem AddsA.applyMany (us : List Member) (b : Bool) :
    AddsA a k (k * selfUpdates a us) (Foca.applyMany E us b) := by
  unfold Foca.applyMany
  exact AddsA.bind (AddsA.applyLoop E b us) (fun _ => AddsA.of (Adds.adjustConnectionState E (n := 0))
    (AddrIs.base E a).adjustConnectionState) (by omega)

/-- the updates of a datagram that name address `a` as Suspect or Down (0 when it does not parse) -/
def selfUpdatesIn (a : Nat) (data : Bytes) : Nat :=
  match E.codec.decHeader data with
  | none => 0
  | some (h, rest) =>
    match parseSection E h rest with
    | none => 0
    | some (us, _) => selfUpdates a us

/-- 1 for a TurnUndead, 0 for every other kind (and for bytes without a header) -/
def isTurnUndead (data : Bytes) : Nat :=
  match E.codec.decHeader data with
  | some (h, _) => if h.msg = .turnUndead then 1 else 0
  | none => 0

/-- 1 for the kind TurnUndead, 0 otherwise -/
def tuCost (m : Msg) : Nat := if m = .turnUndead then 1 else 0

theorem Adds.reactToMessage' (h : Header) : Adds k (k * tuCost h.msg + 1) (Foca.reactToMessage E h) := by
  unfold Foca.reactToMessage
  refine Adds.getS_with (fun s _ => ?_)
  cases hm : h.msg <;> simp only [tuCost, reduceCtorEq, ↓reduceIte] <;> adds0
  all_goals first
    | exact (Adds.sendMessage (k := k) E _ _).mono (by omega)
    | exact (Adds.handleSelfUpdate (k := k) E _ _).mono (by simp)

theorem Adds.inactiveSender' (h : Header) : Adds k (k * tuCost h.msg + 1) (Foca.inactiveSender E h) := by
  unfold Foca.inactiveSender
  have hjp : Adds k 1 (do
      let s ← Foca.getS
      let undeadReplyToUndead := h.msg == Msg.turnUndead && s.conn == Conn.undead
      if (s.cfg.notifyDown && !undeadReplyToUndead) = true then Foca.sendMessage E h.src Msg.turnUndead
      else Pure.pure () : M Unit) := by
    adds0
    exact Adds.sendMessage E _ _
  dsimp only
  split
  · rename_i htu
    have : h.msg = .turnUndead := by simpa using htu
    exact Adds.bind (Adds.handleSelfUpdate E _ _) (fun _ => hjp) (by simp [tuCost, this])
  · exact hjp.mono (by omega)

theorem Adds.replyStage' (h : Header) (cres : Option ErrKind) :
    Adds k (k * tuCost h.msg + 1) (Foca.replyStage E h cres) := by
  unfold Foca.replyStage
  refine Adds.getS_with (fun s _ => ?_)
  split
  · adds0
  · exact Adds.bind (Adds.reactToMessage' E h) (fun _ => by adds0) (Nat.le_refl (k * tuCost h.msg + 1 + 0))

/-- started with own address `a` and `num_indirect_probes = k`, at most `n` more datagrams -/
def CntPost {α} (n : Nat) (c : Ctx) (r : R α) : Prop :=
  match r with
  | .ok _ c' => sendCount c'.eff ≤ sendCount c.eff + n
  | .err _ c' => sendCount c'.eff ≤ sendCount c.eff + n
  | .stuck _ => True

structure Cnt {α} (a k n : Nat) (m : M α) : Prop where
  run : ∀ c, c.s.id.addr = a → c.s.cfg.k = k → CntPost n c (m c)

theorem Cnt.of_adds {α} {m : M α} {n : Nat} (h : Adds k n m) : Cnt a k n m := by
  constructor
  intro c _ hk
  have := h.run c hk
  unfold AddsPost at this
  unfold CntPost
  cases hm : m c with
  | stuck x => trivial
  | err e c' => rw [hm] at this; exact this.2
  | ok x c' => rw [hm] at this; exact this.2

theorem Cnt.mono {α} {m : M α} {n n' : Nat} (h : Cnt a k n m) (hn : n ≤ n') : Cnt a k n' m := by
  constructor
  intro c ha hk
  have := h.run c ha hk
  unfold CntPost at *
  cases hm : m c with
  | stuck x => trivial
  | err e c' => rw [hm] at this; simp only at this ⊢; omega
  | ok x c' => rw [hm] at this; simp only at this ⊢; omega

theorem Cnt.bindA {α β} {m : M α} {f : α → M β} {n n1 n2 : Nat} (hm : AddsA a k n1 m) (hf : ∀ x, Cnt a k n2 (f x))
    (hn : n1 + n2 ≤ n) : Cnt a k n (m >>= f) := by
  constructor
  intro c ha hk
  have h1 := hm.run c ha hk
  simp only [bind_run]
  unfold AddsAPost at h1
  unfold CntPost
  cases hmc : m c with
  | stuck x => trivial
  | err e c' => rw [hmc] at h1; simp only at h1 ⊢; have := h1.2.2; omega
  | ok x c' =>
    rw [hmc] at h1
    have h2 := (hf x).run c' h1.1 h1.2.1
    unfold CntPost at h2
    simp only
    cases hfc : f x c' with
    | stuck y => trivial
    | err e c'' => rw [hfc] at h2; simp only at h1 h2 ⊢; have := h1.2.2; omega
    | ok y c'' => rw [hfc] at h2; simp only at h1 h2 ⊢; have := h1.2.2; omega

theorem Cnt.getS_with {β} {n : Nat} {f : State → M β} (h : ∀ s, Cnt a k n (f s)) : Cnt a k n (Foca.getS >>= f) :=
  ⟨fun c ha hk => by simp only [bind_run, getS_run]; exact (h c.s).run c ha hk⟩

/-- `handle_data`, counted: one answer, and one round of gossip for each update naming the own address and for a
    TurnUndead -/
theorem Cnt.handleData (data : Bytes) :
    Cnt a k (k * (selfUpdatesIn E a data + isTurnUndead E data) + 1) (Foca.handleData E data) := by
  unfold Foca.handleData
  refine Cnt.getS_with (fun s => ?_)
  split
  · exact Cnt.of_adds (Adds.throwE _)
  · split
    · exact Cnt.of_adds (Adds.throwE _)
    · rename_i h rest hdec
      split
      · exact Cnt.of_adds (Adds.throwE _)
      · dsimp only
        split
        · exact Cnt.of_adds (Adds.throwE _)
        · split
          · exact Cnt.of_adds (Adds.pure _)
          · split
            · exact Cnt.of_adds (Adds.throwE _)
            · rename_i updates tail hparse
              have h1 : selfUpdatesIn E a data = selfUpdates a updates := by
                unfold selfUpdatesIn
                rw [hdec]
                simp only []
                rw [hparse]
              have h2 : isTurnUndead E data = tuCost h.msg := by
                unfold isTurnUndead tuCost
                rw [hdec]
              rw [h1, h2]
              refine Cnt.bindA (AddsA.applyUpdate E _ _) (fun senderActive => ?_) (Nat.le_of_eq (Nat.zero_add _))
              split
              · exact (Cnt.of_adds (Adds.inactiveSender' E _)).mono (by rw [Nat.mul_add]; omega)
              · refine Cnt.bindA (AddsA.applyMany E _ _) (fun _ => ?_)
                  (Nat.le_of_eq (n := k * selfUpdates a updates + (k * tuCost h.msg + 1)) (by rw [Nat.mul_add]; omega))
                exact Cnt.of_adds (Adds.bind0 (Adds.attempt (Adds.handleCustomBroadcasts E _ _)) (fun _ => Adds.replyStage' E _ _))

/-- … for one public call -/
theorem step_selfCount (s : State) (data : Bytes) (orc : Oracle) :
    match Foca.step E s (.data data) orc with
    | .done _ eff _ _ => sendCount eff ≤ s.cfg.k * (selfUpdatesIn E s.id.addr data + isTurnUndead E data) + 1
    | .stuck _ => True := by
  have := (Cnt.handleData (a := s.id.addr) (k := s.cfg.k) E data).run ⟨s, [], orc⟩ rfl rfl
  unfold CntPost at this
  unfold Foca.step Foca.runOp
  simp only [bind_run]
  cases hr : handleData E data ⟨s, [], orc⟩ with
  | stuck x => trivial
  | ok u c' =>
    rw [hr] at this
    simp only [pure_run]
    simpa only [sendCount, List.countP_nil, Nat.zero_add] using this
  | err e c' =>
    rw [hr] at this
    simpa only [sendCount, List.countP_nil, Nat.zero_add] using this

end
end Foca
