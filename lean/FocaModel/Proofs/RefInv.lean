/-
  A refutation is final: once an identity is recorded above incarnation `i` (or as Down), it is never again recorded
  as active at or below `i` until its record is forgotten — so a suspicion raised at `i` can never be re-established
  and its timeout never finds a record to act on. (Same structure as `DownInv.lean`; the one new lemma is
  `updateKnown_ref`.)
-/
import FocaModel.Proofs.DownInv
namespace Foca

/-- what the record at the address of `x` looks like once `x` was recorded above incarnation `i` -/
def RefOk (x : Id) (i : Nat) (m : Member) : Prop := (m.id = x ∧ (m.inc > i ∨ m.st = .down)) ∨ m.id.gen > x.gen

/-- identity `x` is recorded above incarnation `i`, or its address is held by an identity of a higher generation -/
def RefInv (x : Id) (i : Nat) (s : State) : Prop := ∃ m ∈ s.ms, m.id.addr = x.addr ∧ RefOk x i m

theorem canChange_inc {st st' : St} {inc inc' : Nat} (h : Gen.canChange st inc inc' st' = true) :
    (inc' ≥ inc ∧ st ≠ .down) ∨ (st' = .down ∧ st ≠ .down) := by
  cases st <;> cases st' <;> simp [Gen.canChange] at h ⊢ <;> omega

/-- an update leaves such a record such a record -/
theorem updateKnown_ref (x : Id) (i : Nat) (k u : Member) (cond : Member → Bool) (hk : k.id.addr = u.id.addr)
    (hd : RefOk x i k) :
    (updateKnown k u cond).1.id.addr = k.id.addr ∧ RefOk x i (updateKnown k u cond).1 := by
  unfold updateKnown
  by_cases h1 : (k.id != u.id && k.id.wins u.id) = true
  · simp [h1]; exact hd
  · by_cases h2 : cond k = true
    · by_cases h3 : (k.id != u.id) = true
      · have hw : k.id.wins u.id = false := by
          cases hw : k.id.wins u.id with
          | false => rfl
          | true => simp [h3, hw] at h1
        have hge : ¬ k.id.gen > u.id.gen := by simpa [Id.wins] using hw
        have hne : k.id ≠ u.id := by simpa using h3
        have hgne : k.id.gen ≠ u.id.gen := by
          intro hg
          apply hne
          cases hki : k.id with
          | mk ka kg =>
            cases hui : u.id with
            | mk ua ug =>
              rw [hki, hui] at hk hg
              simp only at hk hg
              rw [hk, hg]
        simp [h1, h2, h3, hw, hk]
        right
        show u.id.gen > x.gen
        rcases hd with ⟨hid, _⟩ | hgt
        · rw [hid] at hge hgne; omega
        · omega
      · have heq : k.id = u.id := by simpa using h3
        by_cases h4 : Gen.canChange k.st k.inc u.inc u.st = true
        · simp [h1, h2, h3, h4]
          rcases hd with ⟨hid, hinc⟩ | hgt
          · left
            refine ⟨hid, ?_⟩
            rcases canChange_inc h4 with ⟨hge, hnd⟩ | ⟨hdn, hnd⟩
            · rcases hinc with hinc | hinc
              · left; show u.inc > i; omega
              · exact absurd hinc hnd
            · right; exact hdn
          · exact Or.inr hgt
        · simp [h1, h2, h3, h4]; exact hd
    · simp [h1, h2]; exact hd

/-- `apply_existing_if` keeps every record or replaces it by one of the same address that is still `DownOk` -/
theorem applyExisting_ref (x : Id) (i : Nat) {ms ms' : List Member} {u : Member} {cond : Member → Bool} {sm : Summary}
    (h : applyExisting ms u cond = some (ms', sm)) :
    ∀ m ∈ ms, RefOk x i m → m ∈ ms' ∨ ∃ r ∈ ms', r.id.addr = m.id.addr ∧ RefOk x i r := by
  induction ms generalizing ms' sm with
  | nil => simp [applyExisting] at h
  | cons k rest ih =>
    unfold applyExisting at h
    by_cases hk : (k.id.addr == u.id.addr) = true
    · simp only [hk, if_true] at h
      simp at h
      obtain ⟨h1, _⟩ := h
      subst h1
      intro m hm hdm
      simp only [List.mem_cons] at hm
      rcases hm with hm | hm
      · subst hm
        right
        have := updateKnown_ref x i m u cond (by simpa using hk) hdm
        exact ⟨_, by simp, this.1, this.2⟩
      · left; simp [hm]
    · simp only [hk, Bool.false_eq_true, if_false] at h
      cases hr : applyExisting rest u cond with
      | none => rw [hr] at h; simp at h
      | some r =>
        obtain ⟨rest', s'⟩ := r
        rw [hr] at h
        simp at h
        obtain ⟨h1, _⟩ := h
        subst h1
        intro m hm hdm
        simp only [List.mem_cons] at hm
        rcases hm with hm | hm
        · left; simp [hm]
        · rcases ih hr m hm hdm with h2 | ⟨r, hr1, hr2⟩
          · left; simp [h2]
          · right; exact ⟨r, by simp [hr1], hr2⟩

section
variable (E : Env) (x : Id) (i : Nat)

theorem RefInv.of_ms {s s' : State}
    (h : ∀ m ∈ s.ms, RefOk x i m → m ∈ s'.ms ∨ ∃ r ∈ s'.ms, r.id.addr = m.id.addr ∧ RefOk x i r)
    (hs : RefInv x i s) : RefInv x i s' := by
  obtain ⟨m, hm, ha, hg⟩ := hs
  rcases h m hm hg with h1 | ⟨r, hr, hra, hrg⟩
  · exact ⟨m, h1, ha, hg⟩
  · exact ⟨r, hr, by rw [hra]; exact ha, hrg⟩

theorem RefInv.of_same {s s' : State} (h : s'.ms = s.ms) (hs : RefInv x i s) : RefInv x i s' := by
  unfold RefInv at *; rw [h]; exact hs

theorem RefInv.base : Base E (RefInv x i) (fun _ => True) where
  ownDown := fun _ _ => trivial
  membersApply := fun u _ => ⟨fun c hc => by
    unfold Foca.membersApply
    cases h : Foca.applyExisting c.s.ms u (fun _ => true) with
    | some r =>
      obtain ⟨ms', sm⟩ := r
      exact RefInv.of_ms x i (fun m hm hd => applyExisting_ref x i h m hm hd) hc
    | none =>
      simp only
      have hd := drawIdx_frame .choose (c.s.ms.length + 1) c
      cases hdr : Foca.drawIdx .choose (c.s.ms.length + 1) c with
      | stuck x => trivial
      | err e c1 => rw [hdr] at hd; simp only at hd ⊢; rw [hd.1]; exact hc
      | ok j c1 =>
        rw [hdr] at hd
        simp only at hd ⊢
        refine RefInv.of_ms x i (fun m hm _ => Or.inl ?_) hc
        exact (applyNew_perm c.s.ms u j).mem_iff.2 (List.mem_cons_of_mem _ hm)⟩
  membersApplyExistingIf := fun u cond _ => ⟨fun c hc => by
    unfold Foca.membersApplyExistingIf
    cases h : Foca.applyExisting c.s.ms u cond with
    | some r =>
      obtain ⟨ms', sm⟩ := r
      exact RefInv.of_ms x i (fun m hm hd => applyExisting_ref x i h m hm hd) hc
    | none => exact hc⟩
  membersNext := ⟨fun c hc => by
    unfold Foca.membersNext
    by_cases hs : needsShuffle c.s.cursor c.s.ms.length = true
    · simp only [hs, if_true]
      unfold Foca.drawShuffle
      cases hd : c.orc.draws with
      | nil => trivial
      | cons d rest =>
        cases d with
        | idx k => trivial
        | perm p =>
          simp only
          by_cases hperm : (p.filterMap (fun i => c.s.ms[i]?)).isPerm c.s.ms = true
          · simp only [hperm, if_true]
            have hp : (p.filterMap (fun i => c.s.ms[i]?)).Perm c.s.ms := List.isPerm_iff.1 hperm
            exact ⟨RefInv.of_ms x i (fun m hm _ => Or.inl (hp.mem_iff.2 hm)) hc, fun _ _ => trivial⟩
          · simp [hperm]
    · simp only [hs, Bool.false_eq_true, if_false]
      exact ⟨RefInv.of_same x i rfl hc, fun _ _ => trivial⟩⟩
  startProbe := fun m _ => Pres.modS_of (fun s hs => RefInv.of_same x i rfl hs)
  sendMessage := Pres.sendMessage E (by intro s s' h hs; exact RefInv.of_same x i (by rw [h]) hs)
  addUpdate := fun m _ => by
    unfold Foca.addUpdate
    exact Pres.modS_of (fun s hs => RefInv.of_same x i rfl hs)
  modCtl := fun f h => Pres.modS_of (fun s hs => RefInv.of_same x i (h s).1 hs)
  setHst := fun _ => Pres.modS_of (fun s hs => RefInv.of_same x i rfl hs)
  addCustom := fun _ _ _ _ => Pres.modS_of (fun s hs => RefInv.of_same x i rfl hs)

theorem RefInv.modId (f : State → State) (h : IdCtl f) : Pres (RefInv x i) (modS f) :=
  Pres.modS_of (fun s hs => RefInv.of_same x i (h s).1 hs)

theorem RefInv.full : Full E (RefInv x i) (fun _ => True) (fun _ => True) (fun _ => True) where
  toBase := RefInv.base E x i
  handleSelfUpdate := (RefInv.base E x i).handleSelfUpdate_of (RefInv.modId x i)
  inputDown := fun _ _ => trivial
  senderOk := fun _ _ _ _ _ => trivial
  applyOk := fun _ _ _ _ _ _ => trivial
  failedOk := fun _ _ _ _ => trivial

/-- a forget-timer for another address, or for an older identity of the address, leaves the record in place -/
theorem RefInv.forget (id : Id) (hid : id.addr = x.addr → id.gen < x.gen) :
    Pres (RefInv x i) (modS fun s => { s with ms := removeIfDown s.ms id }) := by
  refine Pres.modS_of (fun s hs => ?_)
  rcases removeIfDown_cases s.ms id with h | ⟨r, hr, _, hperm⟩
  · exact RefInv.of_same x i (by simp [h]) hs
  · obtain ⟨m, hm, ha, hd⟩ := hs
    have hm' : m ∈ r :: removeIfDown s.ms id := hperm.mem_iff.2 hm
    simp only [List.mem_cons] at hm'
    rcases hm' with hm' | hm'
    · exfalso
      subst hm'
      have hlt := hid (by rw [← hr]; exact ha)
      rcases hd with ⟨hx, _⟩ | hgt
      · rw [← hr, hx] at hlt; omega
      · rw [← hr] at hlt; omega
    · exact ⟨m, hm', ha, hd⟩

/-- One public call other than a forget-timer for `x` or a newer identity of its address — any input — keeps an identity
    that is recorded above incarnation `i` recorded above `i`, or its address held by an identity of a higher generation. -/
theorem RefInv.step (s : State) (op : Op) (orc : Oracle) (h : RefInv x i s) (hop : Op.keepsDown x op) :
    match Foca.step E s op orc with
    | .done s' _ _ _ => RefInv x i s'
    | .stuck _ => True := by
  have F := RefInv.full E x i
  have hrun := (F.runOp op
    (fun j p _ => F.toBase.changeIdentity_of (RefInv.modId x i) j p)
    (fun _ => F.toBase.reuseDownIdentity_of (RefInv.modId x i))
    (fun _ _ _ _ => trivial) (fun _ _ _ _ _ => trivial)
    (fun _ _ _ _ _ => ⟨trivial, fun _ _ _ _ _ => trivial⟩)
    (fun id hid => RefInv.forget x i id (hop id hid))).run ⟨s, [], orc⟩ h
  unfold Foca.step
  cases hr : Foca.runOp E op ⟨s, [], orc⟩ with
  | stuck _ => trivial
  | ok r c => rw [hr] at hrun; exact hrun
  | err e c => rw [hr] at hrun; exact hrun

end
end Foca
