/-
  `MsInv` (one record per address, exact active counter) is preserved by every function of the model.
-/
import FocaModel.Proofs.Compose
import FocaModel.Proofs.SwapRemove
import FocaModel.Props.C08
import FocaModel.Props.C09
namespace Foca

theorem countActive_perm {l1 l2 : List Member} (h : l1.Perm l2) : countActive l1 = countActive l2 :=
  (h.filter _).length_eq

theorem addrs_nodup_perm {l1 l2 : List Member} (h : l1.Perm l2) (hn : (l1.map (·.id.addr)).Nodup) :
    (l2.map (·.id.addr)).Nodup :=
  ((h.map _).nodup_iff).1 hn

theorem MsInv.applyExisting {s : State} {u : Member} {cond : Member → Bool} {ms' : List Member} {sm : Summary}
    (h : Foca.applyExisting s.ms u cond = some (ms', sm)) (hi : MsInv s) :
    MsInv { s with ms := ms', numActive := adjustActive s.numActive sm } := by
  obtain ⟨hn, hc⟩ := hi
  refine ⟨?_, ?_⟩
  · have := C09.known_address_keeps_addresses h
    unfold C09.addrs at this
    simp only
    rw [this]; exact hn
  · simp only
    rw [hc, C08.counter_tracks_active_records h]

theorem Pres.membersApplyExistingIf (u : Member) (cond : Member → Bool) :
    Pres MsInv (membersApplyExistingIf u cond) := by
  constructor
  intro c hc
  unfold Foca.membersApplyExistingIf
  cases h : Foca.applyExisting c.s.ms u cond with
  | none => exact hc
  | some r =>
    obtain ⟨ms', sm⟩ := r
    exact MsInv.applyExisting h hc

theorem Pres.membersApply (u : Member) : Pres MsInv (membersApply u) := by
  constructor
  intro c hc
  unfold Foca.membersApply
  cases h : Foca.applyExisting c.s.ms u (fun _ => true) with
  | some r =>
    obtain ⟨ms', sm⟩ := r
    exact MsInv.applyExisting h hc
  | none =>
    simp only
    have hd := drawIdx_frame .choose (c.s.ms.length + 1) c
    cases hdr : Foca.drawIdx .choose (c.s.ms.length + 1) c with
    | stuck x => trivial
    | err e c1 => rw [hdr] at hd; simp only at hd ⊢; rw [hd.1]; exact hc
    | ok j c1 =>
      rw [hdr] at hd
      simp only at hd ⊢
      obtain ⟨hn, hcnt⟩ := hc
      have hp := applyNew_perm c.s.ms u j
      refine ⟨?_, ?_⟩
      · simp only
        have hnew : ((u :: c.s.ms).map (·.id.addr)).Nodup := by
          simp only [List.map_cons, List.nodup_cons]
          exact ⟨C09.unknown_address_not_listed h, hn⟩
        exact addrs_nodup_perm hp.symm hnew
      · simp only
        rw [countActive_perm hp]
        unfold countActive at hcnt ⊢
        simp only [List.filter_cons]
        cases hu : u.active <;> simp [hcnt]

theorem Pres.membersNext : Pres MsInv membersNext := by
  constructor
  intro c hc
  unfold Foca.membersNext
  by_cases hs : needsShuffle c.s.cursor c.s.ms.length = true
  · simp only [hs, if_true]
    unfold Foca.drawShuffle
    cases hd : c.orc.draws with
    | nil => trivial
    | cons d rest =>
      cases d with
      | idx k => trivial
      | perm p =>
        simp only
        by_cases hperm : (p.filterMap (fun i => c.s.ms[i]?)).isPerm c.s.ms = true
        · simp only [hperm, if_true]
          have hp : (p.filterMap (fun i => c.s.ms[i]?)).Perm c.s.ms := List.isPerm_iff.1 hperm
          obtain ⟨hn, hcnt⟩ := hc
          exact ⟨addrs_nodup_perm hp.symm hn, by simp only; rw [hcnt, countActive_perm hp]⟩
        · simp [hperm]
  · simp only [hs, Bool.false_eq_true, if_false]
    exact MsInv.of_same rfl rfl hc

theorem removeIfDown_spec (ms : List Member) (id : Id) :
    removeIfDown ms id = ms ∨ ∃ m, m.st = .down ∧ (m :: removeIfDown ms id).Perm ms := by
  unfold removeIfDown
  cases h : ms.findIdx? (fun m => m.id == id && m.st == .down) with
  | none => exact Or.inl rfl
  | some p =>
    right
    obtain ⟨hlt, hp, _⟩ := List.findIdx?_eq_some_iff_getElem.1 h
    refine ⟨ms[p], by simpa using (Bool.and_eq_true_iff.1 hp).2, ?_⟩
    exact swapRemoveAt_perm (List.getElem?_eq_getElem hlt)

theorem MsInv.removeIfDown {s : State} (id : Id) (hi : MsInv s) : MsInv { s with ms := Foca.removeIfDown s.ms id } := by
  obtain ⟨hn, hc⟩ := hi
  rcases removeIfDown_spec s.ms id with h | ⟨m, hm, hp⟩
  · rw [h]; exact ⟨hn, hc⟩
  · refine ⟨?_, ?_⟩
    · have := addrs_nodup_perm hp.symm hn
      simp only [List.map_cons, List.nodup_cons] at this
      exact this.2
    · simp only
      rw [hc, ← countActive_perm hp]
      unfold countActive
      simp [List.filter_cons, Member.active, hm, Gen.isActive]

/-- the leaf obligations of `MsInv` -/
theorem MsInv.leaves (E : Env) : Leaves E MsInv where
  membersApply := Pres.membersApply
  membersApplyExistingIf := Pres.membersApplyExistingIf
  membersNext := Pres.membersNext
  removeDown := fun id => Pres.modS_of (fun s hs => MsInv.removeIfDown id hs)
  sendMessage := Pres.sendMessage E MsInv.ignoresBacklogs
  addUpdate := fun m => by
    unfold Foca.addUpdate
    exact Pres.modS_of (fun s hs => MsInv.of_same rfl rfl hs)
  modCtl := fun f h => Pres.modS_of (fun s hs => MsInv.of_same (h s).1 (h s).2.1 hs)
  setHst := fun _ => Pres.modS_of (fun s hs => MsInv.of_same rfl rfl hs)
  addCustom := fun _ _ _ _ => Pres.modS_of (fun s hs => MsInv.of_same rfl rfl hs)

/-- In every reachable state — any history of public calls, any inputs, any RNG — there is one record per
    address and `num_members()` is exactly the number of active records. -/
theorem MsInv.reachable (E : Env) {s : State} (h : Reachable E s) : MsInv s := (MsInv.leaves E).reachable (by intro id pol cfg; simp [MsInv, State.init, countActive]) h

end Foca
