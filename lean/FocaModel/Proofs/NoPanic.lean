/-
  No public call panics: every `debug_assert`, index, overflow check and `expect` of the crate (the `Stuck.panic`
  outcomes of the model) is unreachable from states in which the send buffer has the configured packet size and
  packets are at most 65535 bytes — in debug and release builds alike.
-/
import FocaModel.Proofs.Frames
import FocaModel.Props.C06
namespace Foca

/-- `m` preserves `P` and never panics (it may still be stuck waiting for an oracle value) -/
structure PresN {α} (P : State → Prop) (m : M α) : Prop where
  run : ∀ c, P c.s → match m c with
    | .ok _ c' => P c'.s
    | .err _ c' => P c'.s
    | .stuck x => ∀ p, x ≠ .panic p

section
variable {P : State → Prop}

theorem PresN.pure {α} (a : α) : PresN P (pure a : M α) := ⟨fun _ h => h⟩

theorem PresN.bind {α β} {m : M α} {f : α → M β} (hm : PresN P m) (hf : ∀ a, PresN P (f a)) : PresN P (m >>= f) := by
  constructor
  intro c hc
  have := hm.run c hc
  simp only [bind_run]
  cases hmc : m c with
  | stuck x => rw [hmc] at this; exact this
  | err e c' => rw [hmc] at this; exact this
  | ok a c' =>
    rw [hmc] at this
    exact (hf a).run c' this

theorem PresN.getS : PresN P Foca.getS := ⟨fun _ h => h⟩
theorem PresN.emit (e : Effect) : PresN P (Foca.emit e) := ⟨fun _ h => h⟩
theorem PresN.throwE {α} (e : ErrKind) : PresN P (Foca.throwE e : M α) := ⟨fun _ h => h⟩
theorem PresN.badOracle {α} (w : String) : PresN P (Foca.badOracle w : M α) :=
  ⟨fun _ _ => by intro p h; cases h⟩

theorem PresN.ite {α} {c : Prop} [Decidable c] {a b : M α} (ha : PresN P a) (hb : PresN P b) :
    PresN P (if c then a else b) := by
  split <;> assumption

theorem PresN.drawIdx (k : DrawKind) (n : Nat) : PresN P (Foca.drawIdx k n) := by
  constructor
  intro c hc
  have hf := drawIdx_frame k n c
  cases h : Foca.drawIdx k n c with
  | ok a c' => rw [h] at hf; simp only at hf ⊢; rw [hf.1]; exact hc
  | err e c' => rw [h] at hf; simp only at hf ⊢; rw [hf.1]; exact hc
  | stuck x =>
    simp only
    intro p hp
    subst hp
    unfold Foca.drawIdx at h
    cases hd : c.orc.draws with
    | nil => rw [hd] at h; simp at h
    | cons d rest =>
      rw [hd] at h
      cases d with
      | perm q => simp at h
      | idx k' => by_cases hk : k' < n <;> simp [hk] at h

theorem PresN.nextPick : PresN P Foca.nextPick := by
  constructor
  intro c hc
  have hs := nextPick_spec c
  cases h : Foca.nextPick c with
  | ok a c' => rw [h] at hs; simp only at hs ⊢; rw [hs.1]; exact hc
  | err e c' => rw [h] at hs; exact hs.elim
  | stuck x =>
    simp only
    intro p hp
    subst hp
    unfold Foca.nextPick at h
    cases hpk : c.orc.picks with
    | nil => rw [hpk] at h; simp at h
    | cons a b => rw [hpk] at h; simp at h

theorem PresN.attempt {m : M Unit} (hm : PresN P m) : PresN P (Foca.attempt m) := by
  constructor
  intro c hc
  have := hm.run c hc
  unfold Foca.attempt
  cases h : m c with
  | stuck x => rw [h] at this; exact this
  | err e c' => rw [h] at this; exact this
  | ok a c' => rw [h] at this; exact this

theorem PresN.modS_of {f : State → State} (h : ∀ s, P s → P (f s)) : PresN P (Foca.modS f) := ⟨fun c hc => h c.s hc⟩

theorem PresN.chooseLoop (w : Nat) (pick : Member → Bool) (l out : List Member) (seen : Nat) :
    PresN P (Foca.chooseLoop w pick l out seen) := by
  constructor
  intro c hc
  have := chooseLoop_spec w pick l out seen c
  cases h : Foca.chooseLoop w pick l out seen c with
  | stuck x => rw [h] at this; exact this
  | err e c' => rw [h] at this; exact this.elim
  | ok a c' => rw [h] at this; simp only; rw [this.1]; exact hc

/-- a computation that changes only membership never panics and keeps anything that ignores membership -/
theorem PresN.of_onlyMembership {α} (hP : IgnoresMembership P) {m : M α} (h : ∀ c, MemOnly c (m c))
    (hnp : ∀ c p, m c ≠ .stuck (.panic p)) : PresN P m :=
  ⟨fun c hc => by
    have := h c
    unfold MemOnly at this
    cases hm : m c with
    | stuck x => intro p hp; exact hnp c p (by rw [hm, hp])
    | err e c' => rw [hm] at this; simp only at this ⊢; rw [this]; exact hc
    | ok a c' => rw [hm] at this; exact hP _ _ this hc⟩

end

macro "presn_step" : tactic => `(tactic| first
  | exact PresN.pure _
  | exact PresN.getS
  | exact PresN.emit _
  | exact PresN.throwE _
  | exact PresN.badOracle _
  | exact PresN.drawIdx _ _
  | exact PresN.nextPick
  | exact PresN.chooseLoop _ _ _ _ _
  | with_reducible apply PresN.bind
  | with_reducible apply PresN.ite
  | (intro _; try dsimp only)
  | split)

macro "presn" : tactic => `(tactic| repeat' presn_step)

/-- the send buffer has the configured packet size (an invariant since the fix of finding F1), and packets are
    at most 65535 bytes -/
def NPInv (s : State) : Prop := s.sendCap = s.cfg.mps ∧ s.cfg.mps ≤ 65535

theorem NPInv.of_same {s s' : State} (h1 : s'.sendCap = s.sendCap) (h2 : s'.cfg = s.cfg) (h : NPInv s) : NPInv s' := by
  unfold NPInv at *; rw [h1, h2]; exact h

theorem NPInv.ignoresMembership : IgnoresMembership NPInv := by
  intro s s' h hs; exact NPInv.of_same (by rw [h]) (by rw [h]) hs

section
variable (E : Env)

theorem membersApply_no_panic (u : Member) (c : Ctx) (p : PanicSite) : membersApply u c ≠ .stuck (.panic p) := by
  unfold Foca.membersApply
  cases h : Foca.applyExisting c.s.ms u (fun _ => true) with
  | some r => simp
  | none =>
    simp only
    unfold Foca.drawIdx
    cases hd : c.orc.draws with
    | nil => simp
    | cons d rest =>
      cases d with
      | perm q => simp
      | idx k => by_cases hk : k < c.s.ms.length + 1 <;> simp [hk]

theorem membersApplyExistingIf_no_panic (u : Member) (cond : Member → Bool) (c : Ctx) (p : PanicSite) :
    membersApplyExistingIf u cond c ≠ .stuck (.panic p) := by
  unfold Foca.membersApplyExistingIf
  cases h : Foca.applyExisting c.s.ms u cond <;> simp

theorem membersNext_no_panic (c : Ctx) (p : PanicSite) : membersNext c ≠ .stuck (.panic p) := by
  unfold Foca.membersNext
  by_cases hs : needsShuffle c.s.cursor c.s.ms.length = true
  · simp only [hs, if_true]
    unfold drawShuffle
    cases hd : c.orc.draws with
    | nil => simp
    | cons d rest =>
      cases d with
      | idx k => simp
      | perm q =>
        simp only
        by_cases hperm : (q.filterMap (fun i => c.s.ms[i]?)).isPerm c.s.ms = true <;> simp [hperm]
  · simp [hs]

/-- `send_message` never panics: the buffer-capacity assertion holds, and the three counters of the payload fit -/
theorem sendMessage_no_panic (d : Id) (msg : Msg) (c : Ctx) (h : NPInv c.s) (p : PanicSite) :
    sendMessage E d msg c ≠ .stuck (.panic p) := by
  obtain ⟨hcap, hmps⟩ := h
  unfold sendMessage
  simp only [bind_run, getS_run]
  have h0 : (E.debug && c.s.sendCap != c.s.cfg.mps) = false := by simp [hcap]
  simp only [h0, Bool.false_eq_true, if_false]
  by_cases h1 : (E.codec.encHeader ⟨c.s.id, c.s.inc, d, msg⟩).length > c.s.cfg.mps
  · simp [h1, throwE]
  · simp only [h1, if_false, bind_run]
    have hp := nextPick_spec c
    cases hpk : nextPick c with
    | err e c1 => simp
    | stuck x =>
      simp only
      unfold nextPick at hpk
      cases hpp : c.orc.picks with
      | nil => rw [hpp] at hpk; simp at hpk; subst hpk; intro h; cases h
      | cons a b => rw [hpp] at hpk; simp at hpk
    | ok pick c1 =>
      rw [hpk] at hp
      obtain ⟨hs1, _⟩ := hp
      simp only []
      have hms := C06.member_section_no_panic E d msg pick (c.s.cfg.mps - (E.codec.encHeader ⟨c.s.id, c.s.inc, d, msg⟩).length) c1
        (by rw [hs1]; omega) (by rw [hs1]; exact hmps)
      have hspec := memberSection_spec E d msg pick (c.s.cfg.mps - (E.codec.encHeader ⟨c.s.id, c.s.inc, d, msg⟩).length) c1
      cases hm : memberSection E d msg pick (c.s.cfg.mps - (E.codec.encHeader ⟨c.s.id, c.s.inc, d, msg⟩).length) c1 with
      | err e c2 => simp
      | stuck x => simp only; intro h; injection h with h; exact hms p (by rw [hm, h])
      | ok sect c2 =>
        rw [hm] at hspec
        obtain ⟨_, _, hl2⟩ := hspec
        simp only []
        have hct := C06.custom_tail_no_panic E d msg pick sect.2 c2 (by omega)
        cases ht : customTail E d msg pick sect.2 c2 with
        | err e c3 => simp
        | stuck x => simp only; intro h; injection h with h; exact hct p (by rw [ht, h])
        | ok tail c3 => simp

theorem NPInv.sendMessage (d : Id) (m : Msg) : PresN NPInv (sendMessage E d m) :=
  ⟨fun c hc => by
    have hs := sendMessage_spec E d m c
    have hn := sendMessage_no_panic E d m c hc
    cases h : Foca.sendMessage E d m c with
    | stuck x => intro p hp; exact hn p (by rw [h, hp])
    | err e c' => rw [h] at hs; simp only at hs ⊢; rw [hs.2.1]; exact hc
    | ok a c' =>
      rw [h] at hs
      have hob := hs.1
      unfold OnlyBacklogs at hob
      exact NPInv.of_same (by rw [hob]) (by rw [hob]) hc⟩

theorem NPInv.modKeep (f : State → State) (h : ∀ s, (f s).sendCap = s.sendCap ∧ (f s).cfg = s.cfg := by intro s; exact ⟨rfl, rfl⟩) :
    PresN NPInv (modS f) := PresN.modS_of (fun s hs => NPInv.of_same (h s).1 (h s).2 hs)

theorem NPInv.membersApply (u : Member) : PresN NPInv (membersApply u) :=
  PresN.of_onlyMembership NPInv.ignoresMembership (membersApply_only u) (membersApply_no_panic u)
theorem NPInv.membersApplyExistingIf (u : Member) (cond : Member → Bool) : PresN NPInv (membersApplyExistingIf u cond) :=
  PresN.of_onlyMembership NPInv.ignoresMembership (membersApplyExistingIf_only u cond) (membersApplyExistingIf_no_panic u cond)
theorem NPInv.membersNext : PresN NPInv membersNext :=
  PresN.of_onlyMembership NPInv.ignoresMembership membersNext_only membersNext_no_panic

theorem NPInv.sendAll (msg : Msg) (ds : List Id) : PresN NPInv (Foca.sendAll E msg ds) := by
  induction ds with
  | nil => unfold Foca.sendAll; exact PresN.pure _
  | cons d rest ih => unfold Foca.sendAll; exact PresN.bind (NPInv.sendMessage E d msg) (fun _ => ih)

theorem NPInv.chooseAndSend (n : Nat) (msg : Msg) : PresN NPInv (Foca.chooseAndSend E n msg) := by
  unfold Foca.chooseAndSend
  presn
  exact NPInv.sendAll E _ _

theorem NPInv.gossip : PresN NPInv (Foca.gossip E) := by
  unfold Foca.gossip
  presn
  exact NPInv.chooseAndSend E _ _

theorem NPInv.announceToDown (n : Nat) : PresN NPInv (Foca.announceToDown E n) := by
  unfold Foca.announceToDown
  presn
  exact NPInv.sendAll E _ _

theorem NPInv.addUpdate (m : Member) : PresN NPInv (Foca.addUpdate E m) := by
  unfold Foca.addUpdate; exact NPInv.modKeep _

theorem NPInv.reset : PresN NPInv Foca.reset := by
  unfold Foca.reset; exact NPInv.modKeep _

theorem NPInv.becomeUndead : PresN NPInv Foca.becomeUndead := by
  unfold Foca.becomeUndead
  presn
  exact NPInv.modKeep _

/-- outcome of a call that keeps `NPInv` and does not panic -/
def NPost {α} (r : R α) : Prop :=
  match r with
  | .ok _ c' => NPInv c'.s
  | .err _ c' => NPInv c'.s
  | .stuck x => ∀ p, x ≠ .panic p

theorem PresN.npost {α} {m : M α} (h : PresN NPInv m) (c : Ctx) (hc : NPInv c.s) : NPost (m c) := by
  have := h.run c hc
  unfold NPost
  cases hm : m c with
  | ok a c' => rw [hm] at this; exact this
  | err e c' => rw [hm] at this; exact this
  | stuck x => rw [hm] at this; exact this

theorem PresN.of_npost {α} {m : M α} (h : ∀ c, NPInv c.s → NPost (m c)) : PresN NPInv m :=
  ⟨fun c hc => by
    have := h c hc
    unfold NPost at this
    cases hm : m c with
    | ok a c' => rw [hm] at this; exact this
    | err e c' => rw [hm] at this; exact this
    | stuck x => rw [hm] at this; exact this⟩

/-- `become_disconnected`, entered with no active member (what its assertion states) -/
theorem becomeDisconnected_np (c : Ctx) (hc : NPInv c.s) (h0 : c.s.numActive = 0) : NPost (becomeDisconnected E c) := by
  unfold Foca.becomeDisconnected
  rw [bind_run, getS_run]
  have : (E.debug && c.s.numActive != 0) = false := by simp [h0]
  simp only [this, Bool.false_eq_true, if_false]
  refine PresN.npost ?_ c hc
  presn
  exact NPInv.modKeep _

/-- `become_connected`, entered with an active member -/
theorem becomeConnected_np (c : Ctx) (hc : NPInv c.s) (h0 : c.s.numActive > 0) : NPost (becomeConnected E c) := by
  unfold Foca.becomeConnected
  rw [bind_run, getS_run]
  have : (E.debug && c.s.numActive == 0) = false := by
    have : c.s.numActive ≠ 0 := by omega
    simp [this]
  simp only [this, Bool.false_eq_true, if_false]
  refine PresN.npost ?_ c hc
  presn
  exact NPInv.modKeep _

theorem NPInv.adjustConnectionState : PresN NPInv (Foca.adjustConnectionState E) := by
  refine PresN.of_npost (fun c hc => ?_)
  unfold Foca.adjustConnectionState
  rw [bind_run, getS_run]
  simp only []
  cases hcn : c.s.conn with
  | undead => simp only []; exact PresN.npost (PresN.pure _) c hc
  | connected =>
    simp only []
    by_cases hnum : (c.s.numActive == 0) = true
    · simp only [hnum, if_true]
      exact becomeDisconnected_np E c hc (by simpa using hnum)
    · simp only [hnum, Bool.false_eq_true, if_false]
      exact PresN.npost (PresN.pure _) c hc
  | disconnected =>
    simp only []
    by_cases hnum : c.s.numActive > 0
    · simp only [hnum, if_true]
      exact becomeConnected_np E c hc hnum
    · simp only [hnum, if_false]
      exact PresN.npost (PresN.pure _) c hc

theorem NPInv.handleApplySummary (sm : Summary) (u : Member) (b : Bool) : PresN NPInv (Foca.handleApplySummary E sm u b) := by
  unfold Foca.handleApplySummary
  presn
  all_goals first | exact NPInv.addUpdate E _ | skip

/-- `apply_update` for an update that is not about the own identity (what its assertion states) -/
theorem applyUpdate_np (u : Member) (b : Bool) (c : Ctx) (hc : NPInv c.s) (hne : (c.s.id == u.id) = false) :
    NPost (applyUpdate E u b c) := by
  unfold Foca.applyUpdate
  rw [bind_run, getS_run]
  simp only [hne, Bool.and_false, Bool.false_eq_true, if_false]
  refine PresN.npost ?_ c hc
  presn
  · exact NPInv.membersApply u
  · exact NPInv.handleApplySummary E _ _ _

theorem NPInv.applyExistingReport (u : Member) (cond : Member → Bool) : PresN NPInv (Foca.applyExistingReport E u cond) := by
  unfold Foca.applyExistingReport
  presn
  · exact NPInv.membersApplyExistingIf _ _
  · exact NPInv.handleApplySummary E _ _ _

theorem NPInv.changeIdentity (i : Id) (p : Policy) : PresN NPInv (Foca.changeIdentity E i p) := by
  unfold Foca.changeIdentity
  presn
  all_goals first
    | exact NPInv.modKeep _
    | exact NPInv.reset
    | exact NPInv.addUpdate E _
    | exact NPInv.gossip E

theorem NPInv.attemptRejoin : PresN NPInv (Foca.attemptRejoin E) := by
  unfold Foca.attemptRejoin
  presn
  exact NPInv.changeIdentity E _ _

theorem NPInv.handleSelfUpdate (inc : Nat) (st : St) : PresN NPInv (Foca.handleSelfUpdate E inc st) := by
  unfold Foca.handleSelfUpdate
  presn
  all_goals first
    | exact NPInv.attemptRejoin E
    | exact NPInv.becomeUndead
    | exact NPInv.gossip E
    | exact NPInv.modKeep _

theorem NPInv.applyOne (u : Member) (b : Bool) : PresN NPInv (Foca.applyOne E u b) := by
  refine PresN.of_npost (fun c hc => ?_)
  unfold Foca.applyOne
  rw [bind_run, getS_run]
  simp only []
  by_cases h1 : (u.id == c.s.id) = true
  · simp only [h1, if_true]
    exact PresN.npost (NPInv.handleSelfUpdate E _ _) c hc
  · have h1' : (c.s.id == u.id) = false := by
      have : u.id ≠ c.s.id := by simpa using h1
      simpa using fun h => this h.symm
    simp only [h1, Bool.false_eq_true, if_false]
    by_cases h2 : (c.s.id.addr == u.id.addr) = true
    · simp only [h2, if_true]
      rw [bind_run]
      have := applyUpdate_np E ⟨u.id, 0, .down⟩ b c hc h1'
      unfold NPost at this ⊢
      cases hr : applyUpdate E ⟨u.id, 0, .down⟩ b c with
      | ok a c' => rw [hr] at this; exact this
      | err e c' => rw [hr] at this; exact this
      | stuck x => rw [hr] at this; exact this
    · simp only [h2, Bool.false_eq_true, if_false]
      rw [bind_run]
      have := applyUpdate_np E u b c hc h1'
      unfold NPost at this ⊢
      cases hr : applyUpdate E u b c with
      | ok a c' => rw [hr] at this; exact this
      | err e c' => rw [hr] at this; exact this
      | stuck x => rw [hr] at this; exact this

theorem NPInv.applyLoop (b : Bool) (us : List Member) : PresN NPInv (Foca.applyLoop E b us) := by
  induction us with
  | nil => unfold Foca.applyLoop; exact PresN.pure _
  | cons u rest ih => unfold Foca.applyLoop; exact PresN.bind (NPInv.applyOne E u b) (fun _ => ih)

theorem NPInv.applyMany (us : List Member) (b : Bool) : PresN NPInv (Foca.applyMany E us b) := by
  unfold Foca.applyMany
  presn
  · exact NPInv.applyLoop E _ _
  · exact NPInv.adjustConnectionState E

theorem NPInv.broadcastLoop (ds : List Id) : PresN NPInv (Foca.broadcastLoop E ds) := by
  induction ds with
  | nil => unfold Foca.broadcastLoop; exact PresN.pure _
  | cons d rest ih =>
    unfold Foca.broadcastLoop
    presn
    · exact NPInv.sendMessage E _ _
    · exact ih

theorem NPInv.broadcastApi : PresN NPInv (Foca.broadcastApi E) := by
  unfold Foca.broadcastApi
  presn
  exact NPInv.broadcastLoop E _

theorem NPInv.leaveCluster : PresN NPInv (Foca.leaveCluster E) := by
  unfold Foca.leaveCluster
  presn
  · exact NPInv.addUpdate E _
  · exact NPInv.gossip E
  · exact NPInv.becomeUndead

theorem NPInv.addBroadcast (d : Bytes) : PresN NPInv (Foca.addBroadcast E d) := by
  unfold Foca.addBroadcast
  presn
  all_goals exact NPInv.modKeep _

theorem NPInv.reuseDownIdentity : PresN NPInv Foca.reuseDownIdentity := by
  unfold Foca.reuseDownIdentity
  presn
  exact NPInv.reset

/-- `set_config` keeps the send buffer in step with the packet size (this is what the fix of F1 added) -/
theorem NPInv.setConfig (cfg : Config) (hm : cfg.mps ≤ 65535) : PresN NPInv (Foca.setConfig cfg) := by
  unfold Foca.setConfig
  presn
  refine PresN.modS_of (fun s hs => ?_)
  obtain ⟨h1, _⟩ := hs
  refine ⟨?_, hm⟩
  simp only
  by_cases hne : (s.cfg.mps != cfg.mps) = true
  · simp [hne]
  · have : s.cfg.mps = cfg.mps := by simpa using hne
    simp [this, h1]

theorem NPInv.probeSuspectFailed : PresN NPInv (Foca.probeSuspectFailed E) := by
  unfold Foca.probeSuspectFailed
  presn
  all_goals first
    | exact NPInv.modKeep _
    | exact NPInv.applyExistingReport E _ _

theorem NPInv.probeStartNext : PresN NPInv (Foca.probeStartNext E) := by
  unfold Foca.probeStartNext
  presn
  all_goals first
    | exact NPInv.membersNext
    | exact NPInv.modKeep _
    | exact NPInv.sendMessage E _ _

/-- `probe_random_member`, entered while connected (what its assertion states) -/
theorem probeRandomMember_np (c : Ctx) (hc : NPInv c.s) (hconn : c.s.conn = .connected) :
    NPost (probeRandomMember E c) := by
  unfold Foca.probeRandomMember
  rw [bind_run, getS_run]
  have : (E.debug && c.s.conn != .connected) = false := by simp [hconn]
  simp only [this, Bool.false_eq_true, if_false]
  refine PresN.npost ?_ c hc
  presn
  all_goals first
    | exact NPInv.modKeep _
    | exact NPInv.probeSuspectFailed E
    | exact NPInv.probeStartNext E

/-- the indirect-probe requests: the probe still has its target, and no helper is the target itself -/
def ProbingInv (probed : Id) (s : State) : Prop := NPInv s ∧ ∃ m, s.probe.direct = some m ∧ m.id = probed

theorem pingReqLoop_np (probed : Id) (ds : List Id) (hds : ∀ d ∈ ds, d ≠ probed) :
    PresN (ProbingInv probed) (Foca.pingReqLoop E probed ds) := by
  induction ds with
  | nil => unfold Foca.pingReqLoop; exact PresN.pure _
  | cons d rest ih =>
    constructor
    intro c hc
    unfold Foca.pingReqLoop
    rw [bind_run, getS_run]
    obtain ⟨hnp, m, hm, hmid⟩ := hc
    have hd : d ≠ probed := hds d (by simp)
    have hrest : PresN (ProbingInv probed)
        (modS (fun s => { s with probe := { s.probe with indirect := s.probe.indirect ++ [d] } }) >>= fun _ =>
         sendMessage E d (.pingReq probed c.s.probe.number) >>= fun _ => pingReqLoop E probed rest) := by
      refine PresN.bind (PresN.modS_of (fun s hs => ⟨NPInv.of_same rfl rfl hs.1, hs.2⟩)) (fun _ => ?_)
      refine PresN.bind ⟨fun c2 hc2 => ?_⟩ (fun _ => ih (fun x hx => hds x (by simp [hx])))
      have hs := sendMessage_spec E d (.pingReq probed c.s.probe.number) c2
      have hn := sendMessage_no_panic E d (.pingReq probed c.s.probe.number) c2 hc2.1
      cases h : Foca.sendMessage E d (.pingReq probed c.s.probe.number) c2 with
      | stuck x => intro p hp; exact hn p (by rw [h, hp])
      | err e c' => rw [h] at hs; simp only at hs ⊢; rw [hs.2.1]; exact hc2
      | ok a c' =>
        rw [h] at hs
        have hob := hs.1
        unfold OnlyBacklogs at hob
        obtain ⟨h1, m2, hm2, hm3⟩ := hc2
        exact ⟨NPInv.of_same (by rw [hob]) (by rw [hob]) h1, m2, by rw [hob]; exact hm2, hm3⟩
    have hne' : (m.id != d) = true := by rw [hmid]; simpa using fun h => hd h.symm
    simp only []
    rw [hm]
    simp only [hne', Bool.not_true, Bool.and_false, Bool.false_eq_true, if_false]
    exact hrest.run c ⟨hnp, m, hm, hmid⟩

theorem NPInv.handleTimer (t : Timer) : PresN NPInv (Foca.handleTimer E t) := by
  refine PresN.of_npost (fun c hc => ?_)
  cases t with
  | probe tok =>
    unfold Foca.handleTimer
    rw [bind_run, getS_run]
    simp only []
    by_cases h1 : (tok == c.s.token) = true
    · simp only [h1, if_true]
      by_cases h2 : (c.s.conn != .connected) = true
      · simp only [h2, if_true]; exact PresN.npost (PresN.throwE _) c hc
      · simp only [h2, Bool.false_eq_true, if_false]
        exact probeRandomMember_np E c hc (by simpa using h2)
    · simp only [h1, Bool.false_eq_true, if_false]
      exact PresN.npost (PresN.pure _) c hc
  | indirect probed tok =>
    unfold Foca.handleTimer
    rw [bind_run, getS_run]
    simp only []
    by_cases h1 : (tok != c.s.token) = true
    · simp only [h1, if_true]; exact PresN.npost (PresN.pure _) c hc
    · simp only [h1, Bool.false_eq_true, if_false]
      rw [bind_run, modS_run]
      simp only []
      by_cases h2 : (!c.s.probe.isProbing probed) = true
      · simp only [h2, if_true, pure_run]; exact NPInv.of_same rfl rfl hc
      · simp only [h2, Bool.false_eq_true, if_false]
        by_cases h3 : c.s.probe.succeeded = true
        · simp only [h3, if_true, pure_run]; exact NPInv.of_same rfl rfl hc
        · simp only [h3, Bool.false_eq_true, if_false]
          by_cases h4 : (!isActiveId c.s.ms probed) = true
          · simp only [h4, if_true, pure_run]; exact NPInv.of_same rfl rfl hc
          · simp only [h4, Bool.false_eq_true, if_false]
            rw [bind_run]
            -- the helpers are chosen among members other than the target
            have hsp := chooseLoop_spec c.s.cfg.k (fun m => m.active && m.id != probed) c.s.ms [] 0
              { c with s := { c.s with probe := { c.s.probe with reached := true } } }
            cases hch : chooseLoop c.s.cfg.k (fun m => m.active && m.id != probed) c.s.ms [] 0
                { c with s := { c.s with probe := { c.s.probe with reached := true } } } with
            | stuck x => rw [hch] at hsp; exact hsp
            | err e c1 => rw [hch] at hsp; exact hsp.elim
            | ok chosen c1 =>
              rw [hch] at hsp
              obtain ⟨hs1, _, hmem, _⟩ := hsp
              simp only []
              have hprob : ∃ m, c.s.probe.direct = some m ∧ m.id = probed := by
                have : c.s.probe.isProbing probed = true := by simpa using h2
                unfold Probe.isProbing at this
                cases hd : c.s.probe.direct with
                | none => rw [hd] at this; simp at this
                | some m => rw [hd] at this; exact ⟨m, rfl, by simpa using this⟩
              have hinv : ProbingInv probed c1.s := by
                rw [hs1]
                obtain ⟨m, hm1, hm2⟩ := hprob
                exact ⟨NPInv.of_same rfl rfl hc, m, hm1, hm2⟩
              have hds : ∀ d ∈ chosen.reverse.map (·.id), d ≠ probed := by
                intro d hd
                simp only [List.mem_map, List.mem_reverse] at hd
                obtain ⟨m, hm, hmd⟩ := hd
                rcases hmem m hm with h | ⟨_, h⟩
                · simp at h
                · subst hmd; simpa using (Bool.and_eq_true_iff.1 h).2
              have := (pingReqLoop_np E probed _ hds).run c1 hinv
              unfold NPost
              cases hr : pingReqLoop E probed (chosen.reverse.map (·.id)) c1 with
              | ok a c' => rw [hr] at this; exact this.1
              | err e c' => rw [hr] at this; exact this.1
              | stuck x => rw [hr] at this; exact this
  | s2d m inc tok =>
    unfold Foca.handleTimer
    refine PresN.npost ?_ c hc
    presn
    all_goals first
      | exact NPInv.applyExistingReport E _ _
      | exact NPInv.adjustConnectionState E
      | exact NPInv.sendMessage E _ _
  | pa tok =>
    unfold Foca.handleTimer
    refine PresN.npost ?_ c hc
    presn
    exact NPInv.chooseAndSend E _ _
  | pad tok =>
    unfold Foca.handleTimer
    refine PresN.npost ?_ c hc
    presn
    exact NPInv.announceToDown E _
  | pg tok =>
    unfold Foca.handleTimer
    refine PresN.npost ?_ c hc
    presn
    exact NPInv.chooseAndSend E _ _
  | rm m =>
    unfold Foca.handleTimer
    refine PresN.npost ?_ c hc
    presn
    exact NPInv.modKeep _

theorem NPInv.customLoop (sender : Option Id) (fuel : Nat) (data : Bytes) : PresN NPInv (Foca.customLoop E sender fuel data) := by
  induction fuel generalizing data with
  | zero => unfold Foca.customLoop; exact PresN.throwE _
  | succ f ih =>
    unfold Foca.customLoop
    presn
    all_goals first
      | exact NPInv.modKeep _
      | exact ih _

theorem NPInv.handleCustomBroadcasts (data : Bytes) (sender : Option Id) :
    PresN NPInv (Foca.handleCustomBroadcasts E data sender) := by
  unfold Foca.handleCustomBroadcasts
  presn
  exact NPInv.customLoop E _ _ _

theorem NPInv.reactToMessage (h : Header) : PresN NPInv (Foca.reactToMessage E h) := by
  unfold Foca.reactToMessage
  presn
  all_goals first
    | exact NPInv.modKeep _
    | exact NPInv.sendMessage E _ _
    | exact NPInv.handleSelfUpdate E _ _

theorem NPInv.inactiveSender (h : Header) : PresN NPInv (Foca.inactiveSender E h) := by
  unfold Foca.inactiveSender
  presn
  all_goals first
    | exact NPInv.handleSelfUpdate E _ _
    | exact NPInv.sendMessage E _ _

theorem NPInv.replyStage (h : Header) (cres : Option ErrKind) : PresN NPInv (Foca.replyStage E h cres) := by
  unfold Foca.replyStage
  presn
  exact NPInv.reactToMessage E _

theorem NPInv.handleData (data : Bytes) : PresN NPInv (Foca.handleData E data) := by
  refine PresN.of_npost (fun c hc => ?_)
  unfold Foca.handleData
  rw [bind_run, getS_run]
  simp only []
  by_cases h1 : data.length > c.s.cfg.mps
  · simp only [h1, if_true]; exact PresN.npost (PresN.throwE _) c hc
  · simp only [h1, if_false]
    cases hd : E.codec.decHeader data with
    | none => simp only []; exact PresN.npost (PresN.throwE _) c hc
    | some hr =>
      obtain ⟨h, rest⟩ := hr
      simp only []
      by_cases h2 : (h.src == c.s.id || h.src.addr == c.s.id.addr) = true
      · simp only [h2, if_true]; exact PresN.npost (PresN.throwE _) c hc
      · simp only [h2, Bool.false_eq_true, if_false]
        by_cases h3 : (rest.length == Gen.trailingByteBad || h.msg == .announce && decide (rest.length > 0)) = true
        · simp only [h3, if_true]; exact PresN.npost (PresN.throwE _) c hc
        · simp only [h3, Bool.false_eq_true, if_false]
          by_cases h4 : (!Gen.acceptPayload c.s.id h.dst h.msg) = true
          · simp only [h4, if_true]; exact PresN.npost (PresN.pure _) c hc
          · simp only [h4, Bool.false_eq_true, if_false]
            cases hp : parseSection E h rest with
            | none => simp only []; exact PresN.npost (PresN.throwE _) c hc
            | some pr =>
              obtain ⟨updates, tail⟩ := pr
              simp only []
              rw [bind_run]
              have hne : (c.s.id == h.src) = false := by
                have : ¬ (h.src = c.s.id) := by
                  intro he
                  simp [he] at h2
                simpa using fun he => this he.symm
              have hap := applyUpdate_np E ⟨h.src, h.srcInc, .alive⟩ true c hc hne
              unfold NPost at hap
              cases hr : applyUpdate E ⟨h.src, h.srcInc, .alive⟩ true c with
              | stuck x => rw [hr] at hap; exact hap
              | err e c1 => rw [hr] at hap; exact hap
              | ok senderActive c1 =>
                rw [hr] at hap
                simp only []
                refine PresN.npost ?_ c1 hap
                presn
                all_goals first
                  | exact NPInv.inactiveSender E _
                  | exact NPInv.applyMany E _ _
                  | exact PresN.attempt (NPInv.handleCustomBroadcasts E _ _)
                  | exact NPInv.replyStage E _ _

/-- every public call (`set_config` with a packet size of at most 65535 bytes) -/
theorem NPInv.runOp (op : Op) (hcfg : ∀ cfg, op = .setConfig cfg → cfg.mps ≤ 65535) : PresN NPInv (Foca.runOp E op) := by
  cases op <;> unfold Foca.runOp <;> presn
  all_goals first
    | exact NPInv.setConfig _ (hcfg _ rfl)
    | exact NPInv.applyMany E _ _
    | exact NPInv.handleData E _
    | exact NPInv.handleTimer E _
    | exact NPInv.sendMessage E _ _
    | exact NPInv.gossip E
    | exact NPInv.broadcastApi E
    | exact NPInv.leaveCluster E
    | exact NPInv.addBroadcast E _
    | exact NPInv.changeIdentity E _ _
    | exact NPInv.reuseDownIdentity

end
end Foca
