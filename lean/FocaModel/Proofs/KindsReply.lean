/-
  The reply stage of `handle_data` in terms of message kinds: after the rounds of Gossip the updates may have caused,
  at most one more datagram — the automatic answer, of a kind `AnswerTo` the kind that was delivered.
-/
import FocaModel.Proofs.Kinds
import FocaModel.Props.C18
namespace Foca
open Foca.C18

/-- the kinds an automatic answer to a message of kind `m0` can have: anything of strictly lower rank, and TurnUndead
    in answer to a TurnUndead (an instance told it is down by a sender it considers down itself) -/
def AnswerTo (m0 m : Msg) : Prop := C18.rank m < C18.rank m0 ∨ (m0 = .turnUndead ∧ m = .turnUndead)

/-- rounds of Gossip, then at most one automatic answer to `m0` -/
def Answered (E : Env) (m0 : Msg) (eff : List Effect) : Prop :=
  ∃ g r, eff = g ++ r ∧ SaysOnly E (· = .gossip) g ∧ sendCount r ≤ 1 ∧ SaysOnly E (AnswerTo m0) r

/-- from effects holding only Gossip to effects holding Gossip and then at most one answer -/
structure Answers {α} (E : Env) (m0 : Msg) (m : M α) : Prop where
  run : ∀ c, SaysOnly E (· = .gossip) c.eff → match m c with
    | .ok _ c' => Answered E m0 c'.eff
    | .err _ c' => Answered E m0 c'.eff
    | .stuck _ => True

theorem Answered.of_gossip {E : Env} {m0 : Msg} {eff : List Effect} (h : SaysOnly E (· = .gossip) eff) :
    Answered E m0 eff :=
  ⟨eff, [], by simp, h, by simp [sendCount], SaysOnly.nil E _⟩

section
variable (E : Env) {m0 : Msg}

theorem Answers.of_says {α} {m : M α} (h : Says E (· = .gossip) m) : Answers E m0 m := by
  constructor
  intro c hc
  have := h.run c hc
  cases hm : m c with
  | stuck x => trivial
  | err e c' => rw [hm] at this; exact Answered.of_gossip this
  | ok a c' => rw [hm] at this; exact Answered.of_gossip this

/-- a prefix that sends only Gossip -/
theorem Answers.bind_says {α β} {m : M α} {f : α → M β} (hm : Says E (· = .gossip) m) (hf : ∀ a, Answers E m0 (f a)) :
    Answers E m0 (m >>= f) := by
  constructor
  intro c hc
  have h1 := hm.run c hc
  simp only [bind_run]
  cases hmc : m c with
  | stuck x => trivial
  | err e c' => rw [hmc] at h1; exact Answered.of_gossip h1
  | ok a c' => rw [hmc] at h1; exact (hf a).run c' h1

/-- a suffix that emits nothing -/
theorem Answers.bind_silent {α β} {m : M α} {f : α → M β} (hm : Answers E m0 m) (hf : ∀ a, Silent (f a)) :
    Answers E m0 (m >>= f) := by
  constructor
  intro c hc
  have h1 := hm.run c hc
  simp only [bind_run]
  cases hmc : m c with
  | stuck x => trivial
  | err e c' => rw [hmc] at h1; exact h1
  | ok a c' =>
    rw [hmc] at h1
    have h2 := hf a c'
    simp only
    cases hfc : f a c' with
    | stuck x => trivial
    | err e c'' => rw [hfc] at h2; simp only at h2 ⊢; rw [h2]; exact h1
    | ok b c'' => rw [hfc] at h2; simp only at h2 ⊢; rw [h2]; exact h1

theorem Answers.sendMessage (d : Id) (m : Msg) (hm : AnswerTo m0 m) : Answers E m0 (Foca.sendMessage E d m) := by
  constructor
  intro c hc
  have := sendMessage_adds E d m c
  cases h : Foca.sendMessage E d m c with
  | stuck x => trivial
  | err e c' => rw [h] at this; simp only at this ⊢; rw [this]; exact Answered.of_gossip hc
  | ok a c' =>
    rw [h] at this
    obtain ⟨b, heff, hd, body, e1, e2, e3⟩ := this
    refine ⟨c.eff, [.send d b], heff, hc, by simp [sendCount, isSend], ?_⟩
    intro d' x hx
    simp only [List.mem_singleton, Effect.send.injEq] at hx
    obtain ⟨h1, h2⟩ := hx
    subst h1 h2
    exact ⟨hd, body, e1, e2, by rw [e3]; exact hm⟩

theorem Silent.pure {α} (a : α) : Silent (Pure.pure a : M α) := fun _ => rfl
theorem Silent.throwE {α} (e : ErrKind) : Silent (Foca.throwE e : M α) := fun _ => rfl

theorem Answers.reactToMessage (h : Header) : Answers E h.msg (Foca.reactToMessage E h) := by
  unfold Foca.reactToMessage
  refine Answers.bind_says E PresE.getS (fun s => ?_)
  cases hm : h.msg with
  | ping n => exact Answers.sendMessage E _ _ (Or.inl (by simp [C18.rank]))
  | ack n => exact Answers.of_says E (Says.modS E _)
  | pingReq t n =>
    dsimp only
    split
    · exact Answers.of_says E (PresE.throwE _)
    · exact Answers.sendMessage E _ _ (Or.inl (by simp [C18.rank]))
  | indirectPing o n =>
    dsimp only
    split
    · exact Answers.of_says E (PresE.throwE _)
    · exact Answers.sendMessage E _ _ (Or.inl (by simp [C18.rank]))
  | indirectAck t n =>
    dsimp only
    split
    · exact Answers.of_says E (PresE.throwE _)
    · exact Answers.sendMessage E _ _ (Or.inl (by simp [C18.rank]))
  | forwardedAck o n =>
    dsimp only
    split
    · exact Answers.of_says E (PresE.throwE _)
    · exact Answers.of_says E (Says.modS E _)
  | announce => exact Answers.sendMessage E _ _ (Or.inl (by simp [C18.rank]))
  | turnUndead => exact Answers.of_says E (Says.handleSelfUpdate E _ _ rfl)
  | gossip => exact Answers.of_says E (PresE.pure _)
  | feed => exact Answers.of_says E (PresE.pure _)
  | broadcast => exact Answers.of_says E (PresE.pure _)

theorem Answers.replyStage (h : Header) (cres : Option ErrKind) : Answers E h.msg (Foca.replyStage E h cres) := by
  unfold Foca.replyStage
  refine Answers.bind_says E PresE.getS (fun s => ?_)
  split
  · cases cres with
    | some e => exact Answers.of_says E (PresE.throwE _)
    | none => exact Answers.of_says E (PresE.pure _)
  · refine Answers.bind_silent E (Answers.reactToMessage E h) (fun _ => ?_)
    cases cres with
    | some e => exact Silent.throwE _
    | none => exact Silent.pure _

theorem Answers.inactiveSender (h : Header) : Answers E h.msg (Foca.inactiveSender E h) := by
  unfold Foca.inactiveSender
  have hjp : Answers E h.msg (do
      let s ← Foca.getS
      let undeadReplyToUndead := h.msg == Msg.turnUndead && s.conn == Conn.undead
      if (s.cfg.notifyDown && !undeadReplyToUndead) = true then Foca.sendMessage E h.src Msg.turnUndead
      else Pure.pure () : M Unit) := by
    refine Answers.bind_says E PresE.getS (fun s => ?_)
    dsimp only
    split
    · refine Answers.sendMessage E _ _ ?_
      by_cases hm : h.msg = .turnUndead
      · exact Or.inr ⟨hm, rfl⟩
      · left
        cases hk : h.msg <;> simp [C18.rank] <;> exact absurd hk hm
    · exact Answers.of_says E (PresE.pure _)
  dsimp only
  split
  · exact Answers.bind_says E (Says.handleSelfUpdate E _ _ rfl) (fun _ => hjp)
  · exact hjp

/-- after `handle_data`: rounds of Gossip followed by at most one automatic answer to the kind of the delivered
    datagram (only Gossip — in fact nothing at all — when the datagram has no readable header) -/
def AnsweredData (E : Env) (data : Bytes) (eff : List Effect) : Prop :=
  match E.codec.decHeader data with
  | none => SaysOnly E (· = .gossip) eff
  | some (h, _) => Answered E h.msg eff

structure AnswersData {α} (E : Env) (data : Bytes) (m : M α) : Prop where
  run : ∀ c, SaysOnly E (· = .gossip) c.eff → match m c with
    | .ok _ c' => AnsweredData E data c'.eff
    | .err _ c' => AnsweredData E data c'.eff
    | .stuck _ => True

theorem AnsweredData.of_gossip {E : Env} {data : Bytes} {eff : List Effect} (h : SaysOnly E (· = .gossip) eff) :
    AnsweredData E data eff := by
  unfold AnsweredData
  split
  · exact h
  · exact Answered.of_gossip h

theorem AnswersData.of_says {α} {data : Bytes} {m : M α} (h : Says E (· = .gossip) m) : AnswersData E data m := by
  constructor
  intro c hc
  have := h.run c hc
  cases hm : m c with
  | stuck x => trivial
  | err e c' => rw [hm] at this; exact AnsweredData.of_gossip this
  | ok a c' => rw [hm] at this; exact AnsweredData.of_gossip this

theorem AnswersData.of_answers {α} {data : Bytes} {m : M α} {h : Header} {rest : Bytes}
    (hdec : E.codec.decHeader data = some (h, rest)) (hm : Answers E h.msg m) : AnswersData E data m := by
  constructor
  intro c hc
  have := hm.run c hc
  unfold AnsweredData
  rw [hdec]
  exact this

theorem AnswersData.getS_with {β} {data : Bytes} {f : State → M β} (h : ∀ s, AnswersData E data (f s)) :
    AnswersData E data (Foca.getS >>= f) :=
  ⟨fun c hc => by simp only [bind_run, getS_run]; exact (h c.s).run c hc⟩

theorem handleData_answers (data : Bytes) : AnswersData E data (Foca.handleData E data) := by
  unfold Foca.handleData
  refine AnswersData.getS_with E (fun s => ?_)
  split
  · exact AnswersData.of_says E (PresE.throwE _)
  · split
    · exact AnswersData.of_says E (PresE.throwE _)
    · rename_i h rest hdec
      refine AnswersData.of_answers E hdec ?_
      split
      · exact Answers.of_says E (PresE.throwE _)
      · dsimp only
        split
        · exact Answers.of_says E (PresE.throwE _)
        · split
          · exact Answers.of_says E (PresE.pure _)
          · split
            · exact Answers.of_says E (PresE.throwE _)
            · refine Answers.bind_says E (Says.applyUpdate E _ _) (fun senderActive => ?_)
              split
              · exact Answers.inactiveSender E h
              · refine Answers.bind_says E (Says.applyMany E _ _ rfl) (fun _ => ?_)
                exact Answers.bind_says E (PresE.attempt (Says.handleCustomBroadcasts E _ _)) (fun _ => Answers.replyStage E h _)

end
end Foca
