/-
  The own incarnation never goes backwards while an identity is in use: the pair (generation, incarnation)
  only moves forward in lexicographic order, on the same address, in every call other than the two calls
  that are documented to reset it (`change_identity`, `reuse_down_identity`).
-/
import FocaModel.Proofs.Frames
namespace Foca

/-- "at or beyond (generation `g`, incarnation `n`) on address `a`", and the incarnation fits `u16` -/
def IncInv (a g n : Nat) (s : State) : Prop :=
  s.id.addr = a ∧ s.inc ≤ 65535 ∧ (s.id.gen > g ∨ (s.id.gen = g ∧ s.inc ≥ n))

theorem IncInv.of_same {a g n : Nat} {s s' : State} (h1 : s'.id = s.id) (h2 : s'.inc = s.inc) (h : IncInv a g n s) :
    IncInv a g n s' := by
  unfold IncInv at *; rw [h1, h2]; exact h

theorem IncInv.base (E : Env) (a g n : Nat) : Base E (IncInv a g n) (fun _ => True) :=
  Base.of_frame
    (by intro s s' h hs; exact IncInv.of_same (by rw [h]) (by rw [h]) hs)
    (by intro s s' h hs; exact IncInv.of_same (by rw [h]) (by rw [h]) hs)
    (fun m => Pres.modS_of (fun s hs => IncInv.of_same rfl rfl hs))
    (fun f h => Pres.modS_of (fun s hs => IncInv.of_same (h s).2.2.2.2.2.1 (h s).2.2.2.2.2.2.1 hs))
    (fun f h => Pres.modS_of (fun s hs => IncInv.of_same (h s).2.2.2.2.1 (h s).2.2.2.2.2.1 hs))

theorem renew_spec {p : Policy} {i j : Id} (h : renew p i = some j) (hne : i ≠ j) (hw : renewWins p j i = true) :
    j.addr = i.addr ∧ j.gen > i.gen := by
  cases p <;> simp [renew] at h <;> subst h <;> simp [Id.wins, renewWins] at hw hne ⊢
  all_goals omega

section
variable (E : Env) (a g n : Nat)

theorem IncInv.reset_after (g' : Nat) : Pres (IncInv a g' 0) Foca.reset := by
  unfold Foca.reset
  refine Pres.modS_of (fun s hs => ?_)
  obtain ⟨h1, _, h3⟩ := hs
  refine ⟨h1, by simp, ?_⟩
  rcases h3 with h3 | h3
  · exact Or.inl h3
  · exact Or.inr ⟨h3.1, Nat.zero_le _⟩

/-- `change_identity` to a renewed identity of the same address with a higher generation -/
theorem IncInv.changeIdentity_at (s0 : State) (newId : Id) (pol : Policy)
    (hadr : newId.addr = s0.id.addr) (hgen : newId.gen > s0.id.gen) :
    PresAt (IncInv a g n) s0 (Foca.changeIdentity E newId pol) := by
  unfold Foca.changeIdentity
  apply PresAt.getS_bind
  apply PresAt.dite
  · intro _; exact PresAt.of_pres (Pres.throwE _)
  · intro _
    dsimp only
    refine PresAt.assume (fun hp0 => ?_)
    have hg : newId.gen > g := by
      obtain ⟨_, _, h3⟩ := hp0
      rcases h3 with h3 | h3 <;> omega
    refine PresAt.switch (P2 := IncInv a newId.gen 0) ?_ ?_ ?_
    · intro hp
      obtain ⟨h1, h2, _⟩ := hp
      exact ⟨by simp only; rw [hadr]; exact h1, h2, Or.inr ⟨rfl, Nat.zero_le _⟩⟩
    · have B := IncInv.base E a newId.gen 0
      refine Pres.bind (IncInv.reset_after a newId.gen) (fun _ => ?_)
      split
      · exact Pres.bind (B.addUpdate _ trivial) (fun _ => B.gossip)
      · exact B.gossip
    · intro s hs
      obtain ⟨h1, h2, h3⟩ := hs
      refine ⟨h1, h2, Or.inl ?_⟩
      rcases h3 with h3 | h3 <;> omega

theorem IncInv.attemptRejoin : Pres (IncInv a g n) (Foca.attemptRejoin E) := by
  unfold Foca.attemptRejoin
  apply Pres.getS_bind
  intro s
  split
  · exact PresAt.of_pres (Pres.pure _)
  · rename_i newId hren
    apply PresAt.dite
    · intro _; exact PresAt.of_pres (Pres.pure _)
    · intro _
      apply PresAt.dite
      · intro _; exact PresAt.of_pres (Pres.pure _)
      · intro hw
        have hw' : renewWins s.policy newId s.id = true := by simpa using hw
        obtain ⟨ha, hgt⟩ := renew_spec hren (by simpa using ‹¬(s.id == newId) = true›) hw'
        exact PresAt.bind (IncInv.changeIdentity_at E a g n s newId s.policy ha hgt)
          (fun _ => Pres.bind (Pres.emit _) (fun _ => Pres.pure _))

theorem satAdd16_ge (m k : Nat) (hk : k ≤ 65535) (hm : k ≤ m) : satAdd16 m ≥ k ∧ satAdd16 m ≤ 65535 := by
  unfold satAdd16
  split <;> omega

theorem IncInv.handleSelfUpdate (inc : Nat) (st : St) : Pres (IncInv a g n) (Foca.handleSelfUpdate E inc st) := by
  have B := IncInv.base E a g n
  unfold Foca.handleSelfUpdate
  cases st with
  | alive => exact Pres.pure _
  | down =>
    exact Pres.bind (IncInv.attemptRejoin E a g n) (fun ok => by
      split
      · exact B.becomeUndead
      · exact Pres.pure _)
  | suspect =>
    simp only
    apply Pres.getS_bind
    intro s
    apply PresAt.dite
    · intro _; exact PresAt.of_pres (Pres.pure _)
    · intro _
      try dsimp only
      apply PresAt.dite
      · intro _
        exact PresAt.of_pres (Pres.bind (IncInv.attemptRejoin E a g n) (fun ok => by
          split
          · exact B.becomeUndead
          · exact Pres.pure _))
      · intro _
        split
        · refine PresAt.bind (PresAt.modS ?_) (fun _ => B.gossip)
          intro hp
          obtain ⟨h1, h2, h3⟩ := hp
          have := satAdd16_ge (max inc s.inc) s.inc h2 (Nat.le_max_right _ _)
          refine ⟨h1, this.2, ?_⟩
          rcases h3 with h3 | h3
          · exact Or.inl h3
          · exact Or.inr ⟨h3.1, by simp only [Gen.incBump]; omega⟩
        · exact PresAt.of_pres B.gossip

theorem IncInv.full : Full E (IncInv a g n) (fun _ => True) (fun _ => True) (fun _ => True) where
  toBase := IncInv.base E a g n
  handleSelfUpdate := IncInv.handleSelfUpdate E a g n
  inputDown := fun _ _ => trivial
  senderOk := fun _ _ _ _ _ => trivial
  applyOk := fun _ _ _ _ _ _ => trivial
  failedOk := fun _ _ _ _ => trivial

end
end Foca
