/-
  "Quiet" computations: they keep connection state, timer token and epoch, and emit no probe timer. Any
  effect-aware invariant that looks at nothing else is preserved by them; the membership primitives, sending and
  the two membership units are quiet.
-/
import FocaModel.Proofs.ComposeC
import FocaModel.Proofs.Frames
namespace Foca

/-- the four recurring loops -/
inductive LoopKind | probe | pa | pad | pg
deriving DecidableEq, Repr

/-- the token of a timer of loop `k` (none for timers of other kinds) -/
def LoopKind.sel : LoopKind → Timer → Option Nat
  | .probe, .probe t => some t
  | .pa, .pa t => some t
  | .pad, .pad t => some t
  | .pg, .pg t => some t
  | _, _ => none

/-- is loop `k` enabled by the configuration (the probe loop always is) -/
def LoopKind.en : LoopKind → Config → Bool
  | .probe, _ => true
  | .pa, c => c.pa.isSome
  | .pad, c => c.pad.isSome
  | .pg, c => c.pg.isSome

/-- tokens of the timers of loop `k` among the effects -/
def loopToks (k : LoopKind) (eff : List Effect) : List Nat :=
  eff.filterMap (fun e => match e with | .timer _ t => k.sel t | _ => none)

def kindTimer (k : LoopKind) : Effect → Bool
  | .timer _ t => (k.sel t).isSome
  | _ => false

theorem loopToks_append (k : LoopKind) (a b : List Effect) : loopToks k (a ++ b) = loopToks k a ++ loopToks k b := by
  simp [loopToks, List.filterMap_append]

theorem loopToks_other (k : LoopKind) (e : Effect) (h : kindTimer k e = false) : loopToks k [e] = [] := by
  cases e with
  | send d b => rfl
  | notify n => rfl
  | timer ms t =>
    simp only [kindTimer] at h
    simp only [loopToks, List.filterMap_cons, List.filterMap_nil]
    cases hs : k.sel t with
    | none => rfl
    | some x => rw [hs] at h; simp at h

/-- a timer that is no loop timer, or an effect that is no timer, is of no kind -/
theorem kindTimer_of_not_loop (k : LoopKind) (e : Effect) (h : loopTimer e = false) : kindTimer k e = false := by
  cases e with
  | send d b => rfl
  | notify n => rfl
  | timer ms t => cases k <;> cases t <;> simp [loopTimer, Timer.isLoop] at h <;> rfl

/-- `P` looks only at connection state, token, epoch, whether loop `k` is enabled (which may only be switched
    off), and the timers of loop `k` emitted -/
def TimerFrame (k : LoopKind) (P : State → List Effect → Prop) : Prop :=
  ∀ s s' eff eff', s'.conn = s.conn → s'.token = s.token → s'.epoch = s.epoch →
    (k.en s'.cfg = true → k.en s.cfg = true) → loopToks k eff' = loopToks k eff → P s eff → P s' eff'

/-- the same with the configuration unchanged: what the quiet computations need -/
def QuietFrame (k : LoopKind) (P : State → List Effect → Prop) : Prop :=
  ∀ s s' eff eff', s'.conn = s.conn → s'.token = s.token → s'.epoch = s.epoch → s'.cfg = s.cfg →
    loopToks k eff' = loopToks k eff → P s eff → P s' eff'

theorem TimerFrame.quiet {k : LoopKind} {P : State → List Effect → Prop} (h : TimerFrame k P) : QuietFrame k P :=
  fun s s' eff eff' h1 h2 h3 h4 h5 hp => h s s' eff eff' h1 h2 h3 (by rw [h4]; exact id) h5 hp

/-- what a quiet computation does -/
def QuietOK {α} (k : LoopKind) (c : Ctx) (r : R α) : Prop :=
  match r with
  | .ok _ c' => c'.s.conn = c.s.conn ∧ c'.s.token = c.s.token ∧ c'.s.epoch = c.s.epoch ∧ c'.s.cfg = c.s.cfg ∧
      loopToks k c'.eff = loopToks k c.eff
  | .err _ c' => c'.s.conn = c.s.conn ∧ c'.s.token = c.s.token ∧ c'.s.epoch = c.s.epoch ∧ c'.s.cfg = c.s.cfg ∧
      loopToks k c'.eff = loopToks k c.eff
  | .stuck _ => True

theorem PresC.of_quiet {α} {k : LoopKind} {P : State → List Effect → Prop} (hP : QuietFrame k P) {m : M α}
    (h : ∀ c, QuietOK k c (m c)) : PresC P m :=
  ⟨fun c hc => by
    have := h c
    unfold QuietOK at this
    cases hm : m c with
    | stuck x => trivial
    | err e c' =>
      rw [hm] at this
      exact hP c.s _ c.eff _ this.1 this.2.1 this.2.2.1 this.2.2.2.1 this.2.2.2.2 hc
    | ok a c' =>
      rw [hm] at this
      exact hP c.s _ c.eff _ this.1 this.2.1 this.2.2.1 this.2.2.2.1 this.2.2.2.2 hc⟩

theorem quiet_membersApply (k : LoopKind) (u : Member) (c : Ctx) : QuietOK k c (membersApply u c) := by
  unfold Foca.membersApply QuietOK
  cases h : Foca.applyExisting c.s.ms u (fun _ => true) with
  | some r => obtain ⟨ms', sm⟩ := r; exact ⟨rfl, rfl, rfl, rfl, rfl⟩
  | none =>
    simp only
    have hd := drawIdx_frame .choose (c.s.ms.length + 1) c
    cases hdr : Foca.drawIdx .choose (c.s.ms.length + 1) c with
    | stuck x => trivial
    | err e c1 => rw [hdr] at hd; simp only at hd ⊢; rw [hd.1, hd.2]; exact ⟨rfl, rfl, rfl, rfl, rfl⟩
    | ok j c1 => rw [hdr] at hd; simp only at hd ⊢; rw [hd.1, hd.2]; exact ⟨rfl, rfl, rfl, rfl, rfl⟩

theorem quiet_membersApplyExistingIf (k : LoopKind) (u : Member) (cond : Member → Bool) (c : Ctx) :
    QuietOK k c (membersApplyExistingIf u cond c) := by
  unfold Foca.membersApplyExistingIf QuietOK
  cases h : Foca.applyExisting c.s.ms u cond with
  | some r => obtain ⟨ms', sm⟩ := r; exact ⟨rfl, rfl, rfl, rfl, rfl⟩
  | none => exact ⟨rfl, rfl, rfl, rfl, rfl⟩

theorem quiet_membersNext (k : LoopKind) (c : Ctx) : QuietOK k c (membersNext c) := by
  unfold Foca.membersNext QuietOK
  by_cases hs : needsShuffle c.s.cursor c.s.ms.length = true
  · simp only [hs, if_true]
    unfold Foca.drawShuffle
    cases hd : c.orc.draws with
    | nil => trivial
    | cons d rest =>
      cases d with
      | idx k => trivial
      | perm p =>
        simp only
        by_cases hperm : (p.filterMap (fun i => c.s.ms[i]?)).isPerm c.s.ms = true
        · simp [hperm]
        · simp [hperm]
  · simp [hs]

theorem quiet_sendMessage (E : Env) (k : LoopKind) (d : Id) (m : Msg) (c : Ctx) : QuietOK k c (sendMessage E d m c) := by
  have := sendMessage_spec E d m c
  unfold QuietOK
  cases h : Foca.sendMessage E d m c with
  | stuck x => trivial
  | err e c' => rw [h] at this; simp only at this ⊢; rw [this.2.1, this.2.2]; exact ⟨rfl, rfl, rfl, rfl, rfl⟩
  | ok a c' =>
    rw [h] at this
    obtain ⟨hob, body, heff, _⟩ := this
    simp only
    unfold OnlyBacklogs at hob
    refine ⟨by rw [hob], by rw [hob], by rw [hob], by rw [hob], ?_⟩
    rw [heff, loopToks_append]
    simp [loopToks]

/-- the primitives every effect-aware timer invariant gets for free -/
structure CoreC (E : Env) (k : LoopKind) (P : State → List Effect → Prop) : Prop where
  keep : ∀ f, Keep4 f → PresC P (modS f)
  emitNP : ∀ e, kindTimer k e = false → PresC P (emit e)
  removeDown : ∀ id, PresC P (modS fun s => { s with ms := removeIfDown s.ms id })
  membersNext : PresC P membersNext
  membersApply : ∀ u, PresC P (membersApply u)
  membersApplyExistingIf : ∀ u cond, PresC P (membersApplyExistingIf u cond)
  sendMessage : ∀ d m, PresC P (sendMessage E d m)

theorem CoreC.of_frame (E : Env) {k : LoopKind} {P : State → List Effect → Prop} (hP : QuietFrame k P) : CoreC E k P where
  keep := fun f h => ⟨fun c hc => by
    simp only [modS_run]
    exact hP c.s _ c.eff _ (h c.s).2.1 (h c.s).2.2.1 (h c.s).2.2.2.1 (h c.s).2.2.2.2 rfl hc⟩
  emitNP := fun e he => ⟨fun c hc => by
    simp only [emit_run]
    exact hP c.s _ c.eff _ rfl rfl rfl rfl (by rw [loopToks_append, loopToks_other k e he, List.append_nil]) hc⟩
  removeDown := fun i => ⟨fun c hc => by simp only [modS_run]; exact hP c.s _ c.eff _ rfl rfl rfl rfl rfl hc⟩
  membersNext := PresC.of_quiet hP (quiet_membersNext k)
  membersApply := fun u => PresC.of_quiet hP (quiet_membersApply k u)
  membersApplyExistingIf := fun u cond => PresC.of_quiet hP (quiet_membersApplyExistingIf k u cond)
  sendMessage := fun d m => PresC.of_quiet hP (quiet_sendMessage E k d m)

section
variable {E : Env} {k : LoopKind} {P : State → List Effect → Prop} (K : CoreC E k P)
include K

theorem CoreC.addUpdate (m : Member) : PresC P (Foca.addUpdate E m) := by
  unfold Foca.addUpdate
  exact K.keep _ (fun _ => ⟨rfl, rfl, rfl, rfl, rfl⟩)

theorem CoreC.handleApplySummary (sm : Summary) (u : Member) (b : Bool) : PresC P (Foca.handleApplySummary E sm u b) := by
  unfold Foca.handleApplySummary
  presc
  all_goals first
    | exact K.addUpdate _
    | exact K.emitNP _ (kindTimer_of_not_loop k _ rfl)

theorem CoreC.applyUpdate (u : Member) (b : Bool) : PresC P (Foca.applyUpdate E u b) := by
  unfold Foca.applyUpdate
  presc
  · exact K.membersApply u
  · exact K.handleApplySummary _ _ _

theorem CoreC.applyExistingReport (u : Member) (cond : Member → Bool) : PresC P (Foca.applyExistingReport E u cond) := by
  unfold Foca.applyExistingReport
  presc
  · exact K.membersApplyExistingIf _ _
  · exact K.handleApplySummary _ _ _

theorem CoreC.probeSuspectFailed : PresC P (Foca.probeSuspectFailed E) := by
  unfold Foca.probeSuspectFailed
  presc
  all_goals first
    | exact K.keep _ (fun _ => ⟨rfl, rfl, rfl, rfl, rfl⟩)
    | exact K.applyExistingReport _ _
    | exact K.emitNP _ (kindTimer_of_not_loop k _ rfl)

theorem CoreC.probeStartNext : PresC P (Foca.probeStartNext E) := by
  unfold Foca.probeStartNext
  presc
  all_goals first
    | exact K.membersNext
    | exact K.keep _ (fun _ => ⟨rfl, rfl, rfl, rfl, rfl⟩)
    | exact K.sendMessage _ _
    | exact K.emitNP _ (kindTimer_of_not_loop k _ rfl)

theorem CoreC.sendAll (msg : Msg) (ds : List Id) : PresC P (Foca.sendAll E msg ds) := by
  induction ds with
  | nil => unfold Foca.sendAll; exact PresC.pure _
  | cons d rest ih => unfold Foca.sendAll; exact PresC.bind (K.sendMessage d msg) (fun _ => ih)

theorem CoreC.chooseAndSend (n : Nat) (msg : Msg) : PresC P (Foca.chooseAndSend E n msg) := by
  unfold Foca.chooseAndSend
  presc
  exact K.sendAll _ _

theorem CoreC.announceToDown (n : Nat) : PresC P (Foca.announceToDown E n) := by
  unfold Foca.announceToDown
  presc
  exact K.sendAll _ _

end

/-- "nothing the accounting of loop `k` looks at has changed since `c0`" -/
def QuietSince (k : LoopKind) (c0 : Ctx) (s : State) (eff : List Effect) : Prop :=
  s.conn = c0.s.conn ∧ s.token = c0.s.token ∧ s.epoch = c0.s.epoch ∧ s.cfg = c0.s.cfg ∧
    loopToks k eff = loopToks k c0.eff

theorem QuietSince.frame (k : LoopKind) (c0 : Ctx) : QuietFrame k (QuietSince k c0) := by
  intro s s' eff eff' h1 h2 h3 h4 h5 h
  unfold QuietSince at *
  rw [h1, h2, h3, h4, h5]
  exact h

end Foca
