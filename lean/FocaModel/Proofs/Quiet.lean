/-
  "Quiet" computations: they keep connection state, timer token and epoch, and emit no probe timer. Any
  effect-aware invariant that looks at nothing else is preserved by them; the membership primitives, sending and
  the two membership units are quiet.
-/
import FocaModel.Proofs.ComposeC
import FocaModel.Proofs.Frames
namespace Foca

def probeToks (eff : List Effect) : List Nat :=
  eff.filterMap (fun e => match e with | .timer _ (.probe t) => some t | _ => none)

theorem probeToks_append (a b : List Effect) : probeToks (a ++ b) = probeToks a ++ probeToks b := by
  simp [probeToks, List.filterMap_append]

theorem probeToks_other (e : Effect) (h : probeTimer e = false) : probeToks [e] = [] := by
  cases e with
  | send d b => rfl
  | notify n => rfl
  | timer ms t => cases t <;> first | rfl | simp [probeTimer] at h

/-- `P` looks only at connection state, token, epoch and the probe timers emitted -/
def TimerFrame (P : State → List Effect → Prop) : Prop :=
  ∀ s s' eff eff', s'.conn = s.conn → s'.token = s.token → s'.epoch = s.epoch →
    probeToks eff' = probeToks eff → P s eff → P s' eff'

/-- what a quiet computation does -/
def QuietOK {α} (c : Ctx) (r : R α) : Prop :=
  match r with
  | .ok _ c' => c'.s.conn = c.s.conn ∧ c'.s.token = c.s.token ∧ c'.s.epoch = c.s.epoch ∧ probeToks c'.eff = probeToks c.eff
  | .err _ c' => c'.s.conn = c.s.conn ∧ c'.s.token = c.s.token ∧ c'.s.epoch = c.s.epoch ∧ probeToks c'.eff = probeToks c.eff
  | .stuck _ => True

theorem PresC.of_quiet {α} {P : State → List Effect → Prop} (hP : TimerFrame P) {m : M α}
    (h : ∀ c, QuietOK c (m c)) : PresC P m :=
  ⟨fun c hc => by
    have := h c
    unfold QuietOK at this
    cases hm : m c with
    | stuck x => trivial
    | err e c' => rw [hm] at this; exact hP c.s _ c.eff _ this.1 this.2.1 this.2.2.1 this.2.2.2 hc
    | ok a c' => rw [hm] at this; exact hP c.s _ c.eff _ this.1 this.2.1 this.2.2.1 this.2.2.2 hc⟩

theorem quiet_membersApply (u : Member) (c : Ctx) : QuietOK c (membersApply u c) := by
  unfold Foca.membersApply QuietOK
  cases h : Foca.applyExisting c.s.ms u (fun _ => true) with
  | some r => obtain ⟨ms', sm⟩ := r; exact ⟨rfl, rfl, rfl, rfl⟩
  | none =>
    simp only
    have hd := drawIdx_frame .choose (c.s.ms.length + 1) c
    cases hdr : Foca.drawIdx .choose (c.s.ms.length + 1) c with
    | stuck x => trivial
    | err e c1 => rw [hdr] at hd; simp only at hd ⊢; rw [hd.1, hd.2]; exact ⟨rfl, rfl, rfl, rfl⟩
    | ok j c1 => rw [hdr] at hd; simp only at hd ⊢; rw [hd.1, hd.2]; exact ⟨rfl, rfl, rfl, rfl⟩

theorem quiet_membersApplyExistingIf (u : Member) (cond : Member → Bool) (c : Ctx) :
    QuietOK c (membersApplyExistingIf u cond c) := by
  unfold Foca.membersApplyExistingIf QuietOK
  cases h : Foca.applyExisting c.s.ms u cond with
  | some r => obtain ⟨ms', sm⟩ := r; exact ⟨rfl, rfl, rfl, rfl⟩
  | none => exact ⟨rfl, rfl, rfl, rfl⟩

theorem quiet_membersNext (c : Ctx) : QuietOK c (membersNext c) := by
  unfold Foca.membersNext QuietOK
  by_cases hs : needsShuffle c.s.cursor c.s.ms.length = true
  · simp only [hs, if_true]
    unfold Foca.drawShuffle
    cases hd : c.orc.draws with
    | nil => trivial
    | cons d rest =>
      cases d with
      | idx k => trivial
      | perm p =>
        simp only
        by_cases hperm : (p.filterMap (fun i => c.s.ms[i]?)).isPerm c.s.ms = true
        · simp [hperm]
        · simp [hperm]
  · simp [hs]

theorem quiet_sendMessage (E : Env) (d : Id) (m : Msg) (c : Ctx) : QuietOK c (sendMessage E d m c) := by
  have := sendMessage_spec E d m c
  unfold QuietOK
  cases h : Foca.sendMessage E d m c with
  | stuck x => trivial
  | err e c' => rw [h] at this; simp only at this ⊢; rw [this.2.1, this.2.2]; exact ⟨rfl, rfl, rfl, rfl⟩
  | ok a c' =>
    rw [h] at this
    obtain ⟨hob, body, heff, _⟩ := this
    simp only
    unfold OnlyBacklogs at hob
    refine ⟨by rw [hob], by rw [hob], by rw [hob], ?_⟩
    rw [heff, probeToks_append]
    simp [probeToks]

/-- the primitives every effect-aware timer invariant gets for free -/
structure CoreC (E : Env) (P : State → List Effect → Prop) : Prop where
  keep : ∀ f, Keep4 f → PresC P (modS f)
  emitNP : ∀ e, probeTimer e = false → PresC P (emit e)
  removeDown : ∀ id, PresC P (modS fun s => { s with ms := removeIfDown s.ms id })
  membersNext : PresC P membersNext
  membersApply : ∀ u, PresC P (membersApply u)
  membersApplyExistingIf : ∀ u cond, PresC P (membersApplyExistingIf u cond)
  sendMessage : ∀ d m, PresC P (sendMessage E d m)

theorem CoreC.of_frame (E : Env) {P : State → List Effect → Prop} (hP : TimerFrame P) : CoreC E P where
  keep := fun f h => ⟨fun c hc => by
    simp only [modS_run]; exact hP c.s _ c.eff _ (h c.s).2.1 (h c.s).2.2.1 (h c.s).2.2.2 rfl hc⟩
  emitNP := fun e he => ⟨fun c hc => by
    simp only [emit_run]
    exact hP c.s _ c.eff _ rfl rfl rfl (by rw [probeToks_append, probeToks_other e he, List.append_nil]) hc⟩
  removeDown := fun id => ⟨fun c hc => by simp only [modS_run]; exact hP c.s _ c.eff _ rfl rfl rfl rfl hc⟩
  membersNext := PresC.of_quiet hP quiet_membersNext
  membersApply := fun u => PresC.of_quiet hP (quiet_membersApply u)
  membersApplyExistingIf := fun u cond => PresC.of_quiet hP (quiet_membersApplyExistingIf u cond)
  sendMessage := fun d m => PresC.of_quiet hP (quiet_sendMessage E d m)

section
variable {E : Env} {P : State → List Effect → Prop} (K : CoreC E P)
include K

theorem CoreC.addUpdate (m : Member) : PresC P (Foca.addUpdate E m) := by
  unfold Foca.addUpdate
  exact K.keep _ (fun _ => ⟨rfl, rfl, rfl, rfl⟩)

theorem CoreC.handleApplySummary (sm : Summary) (u : Member) (b : Bool) : PresC P (Foca.handleApplySummary E sm u b) := by
  unfold Foca.handleApplySummary
  presc
  all_goals first
    | exact K.addUpdate _
    | exact K.emitNP _ rfl

theorem CoreC.applyUpdate (u : Member) (b : Bool) : PresC P (Foca.applyUpdate E u b) := by
  unfold Foca.applyUpdate
  presc
  · exact K.membersApply u
  · exact K.handleApplySummary _ _ _

theorem CoreC.applyExistingReport (u : Member) (cond : Member → Bool) : PresC P (Foca.applyExistingReport E u cond) := by
  unfold Foca.applyExistingReport
  presc
  · exact K.membersApplyExistingIf _ _
  · exact K.handleApplySummary _ _ _

theorem CoreC.probeSuspectFailed : PresC P (Foca.probeSuspectFailed E) := by
  unfold Foca.probeSuspectFailed
  presc
  all_goals first
    | exact K.keep _ (fun _ => ⟨rfl, rfl, rfl, rfl⟩)
    | exact K.applyExistingReport _ _
    | exact K.emitNP _ rfl

theorem CoreC.probeStartNext : PresC P (Foca.probeStartNext E) := by
  unfold Foca.probeStartNext
  presc
  all_goals first
    | exact K.membersNext
    | exact K.keep _ (fun _ => ⟨rfl, rfl, rfl, rfl⟩)
    | exact K.sendMessage _ _
    | exact K.emitNP _ rfl

end
end Foca
