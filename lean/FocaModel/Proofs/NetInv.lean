/-
  A cluster-level invariant: whatever any instance holds, has on the wire or has scheduled about an identity is at
  an incarnation that identity has itself announced in the header of a datagram it sent (`toldBy sent`).
-/
import FocaModel.Net
import FocaModel.Proofs.SentInv
namespace Foca
open Foca.C07 Foca.C07H

/-! ### the log of announced incarnations -/

theorem foldl_max_le (l : List Nat) (a : Nat) : a ≤ l.foldl max a := by
  induction l generalizing a with
  | nil => exact Nat.le_refl _
  | cons x xs ih => exact Nat.le_trans (Nat.le_max_left a x) (ih _)

theorem foldl_max_mem (l : List Nat) (a x : Nat) (h : x ∈ l) : x ≤ l.foldl max a := by
  induction l generalizing a with
  | nil => simp at h
  | cons y ys ih =>
    simp only [List.foldl_cons]
    rcases List.mem_cons.1 h with h | h
    · subst h; exact Nat.le_trans (Nat.le_max_right a x) (foldl_max_le _ _)
    · exact ih _ h

theorem foldl_max_mono (l : List Nat) (a b : Nat) (h : a ≤ b) : l.foldl max a ≤ l.foldl max b := by
  induction l generalizing a b with
  | nil => exact h
  | cons x xs ih => exact ih _ _ (by omega)

theorem foldl_max_append (l1 l2 : List Nat) (a : Nat) : l1.foldl max a ≤ (l1 ++ l2).foldl max a := by
  rw [List.foldl_append]
  exact foldl_max_le _ _

theorem toldBy_mem {sent : List Header} {h : Header} (hm : h ∈ sent) : h.srcInc ≤ toldBy sent h.src := by
  unfold toldBy
  apply foldl_max_mem
  exact List.mem_map.2 ⟨h, List.mem_filter.2 ⟨hm, by simp⟩, rfl⟩

theorem toldBy_append (sent more : List Header) (id : Id) : toldBy sent id ≤ toldBy (sent ++ more) id := by
  unfold toldBy
  rw [List.filter_append, List.map_append]
  exact foldl_max_append _ _ _

/-! ### the shape under a larger bound -/

theorem DatagramShape.mono {E : Env} {Q Q' : Member → Prop} (hq : ∀ u, Q u → Q' u) {h : Header} {b : Bytes}
    (hs : DatagramShape E Q h b) : DatagramShape E Q' h b := by
  obtain ⟨us, items, h1, h2, h3⟩ := hs
  exact ⟨us, items, fun u hu => hq u (h1 u hu), h2, h3⟩

/-! ### a datagram of the documented shape is wire-range input -/

theorem decodeMembers_take (E : Env) (hl : CodecLaws E.codec) (us : List Member) (tail : Bytes) (n : Nat)
    (hw : ∀ m ∈ us, Member.Wire m) (hn : n ≤ us.length) :
    decodeMembers E n ((us.map E.codec.encMember).flatten ++ tail) =
      some (us.take n, ((us.drop n).map E.codec.encMember).flatten ++ tail) := by
  induction n generalizing us with
  | zero => simp [decodeMembers]
  | succ k ih =>
    cases us with
    | nil => simp at hn
    | cons m rest =>
      simp only [List.map_cons, List.flatten_cons, List.append_assoc, decodeMembers]
      rw [hl.member_rt m _ (hw m (by simp))]
      simp only []
      rw [ih rest (fun x hx => hw x (by simp [hx])) (by simpa using hn)]
      simp

/-- what the receiver parses out of a datagram of the documented shape are members the sender wrote -/
theorem shape_dataOk (E : Env) (hl : CodecLaws E.codec) (hhdr : HeaderLaw E.codec)
    {Q : Member → Prop} (hQ : ∀ u, Q u → Member.Wire u) {okH : Header → Prop} {h : Header} {b : Bytes}
    (hs : DatagramShape E Q h b) (hw : HWire h) (hh : okH h) : DataOk E Q okH b := by
  obtain ⟨us, items, hus, _, hcase⟩ := hs
  intro h' rest hdec
  rcases hcase with hb | ⟨hk1, _, hb⟩ | ⟨hk, hb⟩
  · have := hhdr h [] hw
    rw [List.append_nil, ← hb, hdec] at this
    simp only [Option.some.injEq, Prod.mk.injEq] at this
    obtain ⟨rfl, rfl⟩ := this
    refine ⟨hh, ?_⟩
    intro us' tail' hp
    rw [empty_body] at hp
    simp only [Option.some.injEq, Prod.mk.injEq] at hp
    intro u hu; rw [← hp.1] at hu; simp at hu
  · have := hhdr h (sectionBytes E us ++ tailBytes items) hw
    rw [← hb, hdec] at this
    simp only [Option.some.injEq, Prod.mk.injEq] at this
    obtain ⟨rfl, rfl⟩ := this
    refine ⟨hh, ?_⟩
    intro us' tail' hp
    unfold parseSection sectionBytes u16be at hp
    have hm : (h'.msg != .broadcast) = true := by simpa using hk1
    have hge : decide ((us.length / 256 % 256 :: us.length % 256 :: ((us.map E.codec.encMember).flatten ++ tailBytes items)).length
        ≥ Gen.sectionMinBytes) = true := by simp [Gen.sectionMinBytes]
    simp only [List.cons_append, List.nil_append, List.append_assoc, hm, Bool.and_true, hge, if_true] at hp
    have hle : us.length / 256 % 256 * 256 + us.length % 256 ≤ us.length := by omega
    rw [decodeMembers_take E hl us (tailBytes items) _ (fun m hm => hQ m (hus m hm)) hle] at hp
    simp only [Option.some.injEq, Prod.mk.injEq] at hp
    intro u hu
    rw [← hp.1] at hu
    exact hus u (List.mem_of_mem_take hu)
  · have := hhdr h (tailBytes items) hw
    rw [← hb, hdec] at this
    simp only [Option.some.injEq, Prod.mk.injEq] at this
    obtain ⟨rfl, rfl⟩ := this
    refine ⟨hh, ?_⟩
    intro us' tail' hp
    rw [broadcast_body_is_tail E h' _ hk] at hp
    simp only [Option.some.injEq, Prod.mk.injEq] at hp
    intro u hu; rw [← hp.1] at hu; simp at hu

/-! ### the cluster -/

section
variable (E : Env)

/-- every state of a cluster reachable from freshly created instances -/
inductive NetReach : Net → Prop
  | init (ss : List State) :
      (∀ s ∈ ss, ∃ id pol cfg, IdWire id ∧ s = State.init id pol cfg) → NetReach ⟨ss, [], [], []⟩
  /-- a datagram on the wire reaches node `i` (the addressee or anybody else; again, or for the first time) -/
  | deliver {n : Net} (i : Nat) (s s' : State) (d : Id) (b : Bytes) (orc : Oracle) (eff : List Effect) (r : Res)
      (left : Oracle) : NetReach n → n.nodes[i]? = some s → (d, b) ∈ n.wire →
      Foca.step E s (.data b) orc = .done s' eff r left → NetReach (n.after E i s' eff)
  /-- a timer node `i` scheduled fires (in any order, however late, possibly again) -/
  | fire {n : Net} (i : Nat) (s s' : State) (t : Timer) (orc : Oracle) (eff : List Effect) (r : Res)
      (left : Oracle) : NetReach n → n.nodes[i]? = some s → (i, t) ∈ n.timers →
      Foca.step E s (.timer t) orc = .done s' eff r left → NetReach (n.after E i s' eff)
  /-- an API call on node `i` (anything but `apply_many`; a new identity within the wire range) -/
  | api {n : Net} (i : Nat) (s s' : State) (op : Op) (orc : Oracle) (eff : List Effect) (r : Res)
      (left : Oracle) : NetReach n → n.nodes[i]? = some s → op.isApi = true →
      (∀ j p, op = .changeIdentity j p → IdWire j) → (∀ d, op = .announce d → IdWire d) →
      Foca.step E s op orc = .done s' eff r left → NetReach (n.after E i s' eff)

/-- what holds of every reachable cluster, with `τ := toldBy n.sent` -/
def NetInv (n : Net) : Prop :=
  (∀ s ∈ n.nodes, Ready E (toldBy n.sent) s) ∧
  (∀ d b, (d, b) ∈ n.wire → ∃ h ∈ n.sent, h.dst = d ∧ HWire h ∧ DatagramShape E (MW (toldBy n.sent)) h b) ∧
  (∀ i m inc tok, (i, Timer.s2d m inc tok) ∈ n.timers → MW (toldBy n.sent) ⟨m, inc, .down⟩) ∧
  (∀ i p tok, (i, Timer.indirect p tok) ∈ n.timers → IdWire p)

variable (hl : CodecLaws E.codec) (hhdr : HeaderLaw E.codec)
include hl hhdr

omit hl in
/-- the header the codec reads back from a datagram of the documented shape is the header it was built with -/
theorem shape_header {Q : Member → Prop} {h : Header} {b : Bytes} (hs : DatagramShape E Q h b) (hw : HWire h) :
    (E.codec.decHeader b).map (·.1) = some h := by
  obtain ⟨us, items, _, _, hcase⟩ := hs
  rcases hcase with hb | ⟨_, _, hb⟩ | ⟨_, hb⟩
  · have := hhdr h [] hw
    rw [List.append_nil] at this
    rw [hb, this]; rfl
  · rw [hb, hhdr _ _ hw]; rfl
  · rw [hb, hhdr _ _ hw]; rfl

omit hl in
/-- what one call adds to the cluster, given that its effects have the documented shape -/
theorem after_effects {τ : Id → Nat} {eff : List Effect} (he : ∀ e ∈ eff, EffShape E τ e) :
    (∀ d b, (d, b) ∈ sentDatagrams eff → ∃ h ∈ sentHeaders E eff, h.dst = d ∧ HWire h ∧
        DatagramShape E (MW τ) h b) ∧
    (∀ i j m inc tok, (j, Timer.s2d m inc tok) ∈ schedTimers i eff → MW τ ⟨m, inc, .down⟩) ∧
    (∀ i j p tok, (j, Timer.indirect p tok) ∈ schedTimers i eff → IdWire p) := by
  refine ⟨?_, ?_, ?_⟩
  · intro d b hdb
    unfold sentDatagrams at hdb
    rw [List.mem_filterMap] at hdb
    obtain ⟨e, hmem, hq⟩ := hdb
    cases e with
    | timer a t => simp at hq
    | notify x => simp at hq
    | send d' b' =>
      simp only [Option.some.injEq, Prod.mk.injEq] at hq
      obtain ⟨rfl, rfl⟩ := hq
      obtain ⟨h, h1, h2, h4⟩ := he _ hmem
      refine ⟨h, ?_, h1, h2, h4⟩
      unfold sentHeaders
      rw [List.mem_filterMap]
      exact ⟨_, hmem, shape_header E hhdr h4 h2⟩
  · intro i j m inc tok hmem
    unfold schedTimers at hmem
    rw [List.mem_filterMap] at hmem
    obtain ⟨e, hm, hq⟩ := hmem
    cases e with
    | send d b => simp at hq
    | notify x => simp at hq
    | timer a t =>
      simp only [Option.some.injEq, Prod.mk.injEq] at hq
      obtain ⟨_, rfl⟩ := hq
      exact he _ hm
  · intro i j p tok hmem
    unfold schedTimers at hmem
    rw [List.mem_filterMap] at hmem
    obtain ⟨e, hm, hq⟩ := hmem
    cases e with
    | send d b => simp at hq
    | notify x => simp at hq
    | timer a t =>
      simp only [Option.some.injEq, Prod.mk.injEq] at hq
      obtain ⟨_, rfl⟩ := hq
      exact he _ hm

omit hl in
/-- one call of node `i` with input covered by the invariant keeps the invariant -/
theorem NetInv.after (n : Net) (i : Nat) (s s' : State) (op : Op) (orc : Oracle) (eff : List Effect) (r : Res)
    (left : Oracle) (hinv : NetInv E n) (hs : n.nodes[i]? = some s)
    (hin : InputWire E (toldBy n.sent) op) (hstep : Foca.step E s op orc = .done s' eff r left) :
    NetInv E (n.after E i s' eff) := by
  obtain ⟨h1, h2, h3, h4⟩ := hinv
  have hsmem : s ∈ n.nodes := List.mem_of_getElem? hs
  have hst := Sent.step E (toldBy n.sent) s op orc (h1 s hsmem) hin
  rw [hstep] at hst
  obtain ⟨hready, heff⟩ := hst
  obtain ⟨a1, a2, a3⟩ := after_effects E hhdr heff
  have hle : ∀ id, toldBy n.sent id ≤ toldBy (n.sent ++ sentHeaders E eff) id := fun id => toldBy_append _ _ _
  refine ⟨?_, ?_, ?_, ?_⟩
  · intro x hx
    simp only [Net.after] at hx ⊢
    rcases List.mem_or_eq_of_mem_set hx with hx | hx
    · exact Ready.mono E _ hle (h1 x hx)
    · subst hx; exact Ready.mono E _ hle hready
  · intro d b hdb
    simp only [Net.after] at hdb ⊢
    rcases List.mem_append.1 hdb with hdb | hdb
    · obtain ⟨h, hm, q1, q2, q4⟩ := h2 d b hdb
      exact ⟨h, List.mem_append.2 (Or.inl hm), q1, q2, q4.mono (fun u hu => MW.mono hle hu)⟩
    · obtain ⟨h, hm, q1, q2, q4⟩ := a1 d b hdb
      exact ⟨h, List.mem_append.2 (Or.inr hm), q1, q2, q4.mono (fun u hu => MW.mono hle hu)⟩
  · intro j m inc tok hmem
    simp only [Net.after] at hmem ⊢
    rcases List.mem_append.1 hmem with hmem | hmem
    · exact MW.mono hle (h3 j m inc tok hmem)
    · exact MW.mono hle (a2 i j m inc tok hmem)
  · intro j p tok hmem
    simp only [Net.after] at hmem ⊢
    rcases List.mem_append.1 hmem with hmem | hmem
    · exact h4 j p tok hmem
    · exact a3 i j p tok hmem

/-- **The invariant holds in every reachable cluster.** -/
theorem NetInv.reachable {n : Net} (h : NetReach E n) : NetInv E n := by
  induction h with
  | init ss hss =>
    refine ⟨?_, ?_, ?_, ?_⟩
    · intro s hs
      obtain ⟨id, pol, cfg, hw, rfl⟩ := hss s hs
      exact Ready.reachable E (WireHistory.init id pol cfg _ hw)
    · intro d b h; simp at h
    · intro i m inc tok h; simp at h
    · intro i p tok h; simp at h
  | @deliver n i s s' d b orc eff r left _ hs hw hstep ih =>
    refine NetInv.after E hhdr n i s s' (.data b) orc eff r left ih hs ?_ hstep
    obtain ⟨h, hm, q1, q2, q4⟩ := ih.2.1 d b hw
    refine ⟨(fun us bb hh => by cases hh), ?_, (fun m inc tok hh => by cases hh), (fun j p hh => by cases hh),
      (fun p tok hh => by cases hh), (fun d hh => by cases hh)⟩
    intro data hd
    cases hd
    exact shape_dataOk E hl hhdr (fun u hu => (mwire_iff u).1 hu.1) q4 q2
      ⟨⟨⟨q2.1, q2.2.1⟩, toldBy_mem hm⟩, q2.2.2.2⟩
  | @fire n i s s' t orc eff r left _ hs hw hstep ih =>
    refine NetInv.after E hhdr n i s s' (.timer t) orc eff r left ih hs ?_ hstep
    refine ⟨(fun us bb hh => by cases hh), (fun data hh => by cases hh), ?_, (fun j p hh => by cases hh), ?_,
      (fun d hh => by cases hh)⟩
    · intro m inc tok hh
      cases hh
      exact ih.2.2.1 i m inc tok hw
    · intro p tok hh
      cases hh
      exact ih.2.2.2 i p tok hw
  | @api n i s s' op orc eff r left _ hs hapi hid hann hstep ih =>
    refine NetInv.after E hhdr n i s s' op orc eff r left ih hs ?_ hstep
    refine ⟨?_, ?_, ?_, hid, ?_, hann⟩
    · intro us bb hh; subst hh; simp [Op.isApi] at hapi
    · intro data hh; subst hh; simp [Op.isApi] at hapi
    · intro m inc tok hh; subst hh; simp [Op.isApi] at hapi
    · intro p tok hh; subst hh; simp [Op.isApi] at hapi

end
end Foca
