/-
  `Broadcasts::fill`: space accounting and conservation lemmas.
-/
import FocaModel.Backlog
namespace Foca

theorem takeByData_spec {κ} {l : List (Entry κ)} {d : Bytes} {e : Entry κ} {rest : List (Entry κ)}
    (h : takeByData l d = some (e, rest)) : e.data = d ∧ (e :: rest).Perm l := by
  induction l generalizing e rest with
  | nil => simp [takeByData] at h
  | cons x xs ih =>
    unfold takeByData at h
    by_cases hx : x.data = d
    · simp only [hx, beq_self_eq_true, if_true] at h
      cases hr : takeByData xs d with
      | none =>
        rw [hr] at h; simp at h
        obtain ⟨h1, h2⟩ := h
        subst h1; subst h2
        exact ⟨hx, List.Perm.refl _⟩
      | some p =>
        obtain ⟨e', rest'⟩ := p
        rw [hr] at h
        simp only at h
        obtain ⟨hd, hp⟩ := ih hr
        by_cases ht : e'.tx > x.tx
        · simp [ht] at h
          obtain ⟨h1, h2⟩ := h
          subst h1; subst h2
          exact ⟨hd, (List.Perm.swap x e' rest').trans (List.Perm.cons x hp)⟩
        · simp [ht] at h
          obtain ⟨h1, h2⟩ := h
          subst h1; subst h2
          exact ⟨hx, List.Perm.refl _⟩
    · have hx' : (x.data == d) = false := by simpa using hx
      simp only [hx', Bool.false_eq_true, if_false] at h
      cases hr : takeByData xs d with
      | none => rw [hr] at h; simp at h
      | some p =>
        obtain ⟨e', rest'⟩ := p
        rw [hr] at h
        simp at h
        obtain ⟨h1, h2⟩ := h
        subst h1; subst h2
        obtain ⟨hd, hp⟩ := ih hr
        exact ⟨hd, (List.Perm.swap x e' rest').trans (List.Perm.cons x hp)⟩

/-- total bytes a list of written blobs occupies in the datagram -/
def framedLen (overhead : Nat) (ws : List Bytes) : Nat := (ws.map (fun d => d.length + overhead)).sum

theorem framedLen_append (ov : Nat) (a b : List Bytes) : framedLen ov (a ++ b) = framedLen ov a + framedLen ov b := by
  simp [framedLen]

/-- one step: the chosen entry carried that blob, had transmissions left, fitted, and no strictly
    higher-priority pending entry would have fitted -/
theorem fillStep_spec {κ} {ov : Nat} {r r' : FillResult κ} {d : Bytes} (h : fillStep ov r d = some r') :
    ∃ e, e.data = d ∧ (e :: r'.pending).Perm r.pending ∧ e.tx > 0 ∧ e.fits r.space ov = true ∧
      (∀ e' ∈ r'.pending, e'.gt e = true → e'.fits r.space ov = false) ∧
      r'.done = (if e.tx - 1 > 0 then r.done ++ [{ e with tx := e.tx - 1 }] else r.done) ∧
      r'.written = r.written ++ [d] ∧ r'.space + (d.length + ov) = r.space ∧ r'.items + 1 = r.items := by
  unfold fillStep at h
  by_cases h0 : (r.space == 0 || r.items == 0) = true
  · simp [h0] at h
  · simp only [h0, Bool.false_eq_true, if_false] at h
    cases ht : takeByData r.pending d with
    | none => rw [ht] at h; simp at h
    | some p =>
      obtain ⟨e, rest⟩ := p
      rw [ht] at h
      simp only at h
      obtain ⟨hd, hp⟩ := takeByData_spec ht
      by_cases hf : e.fits r.space ov = true
      · simp only [hf, Bool.not_true, Bool.false_eq_true, if_false] at h
        by_cases ha : rest.any (fun e' => e'.gt e && e'.fits r.space ov) = true
        · simp [ha] at h
        · simp only [ha, Bool.false_eq_true, if_false] at h
          by_cases hz : (e.tx == 0) = true
          · simp [hz] at h
          · simp only [hz, Bool.false_eq_true, if_false] at h
            simp at h
            subst h
            have hz' : e.tx ≠ 0 := by simpa using hz
            have h0' : r.space ≠ 0 ∧ r.items ≠ 0 := by simpa using h0
            have hfit : r.space ≥ e.data.length + ov := by simpa [Entry.fits] using hf
            refine ⟨e, hd, hp, by omega, hf, ?_, rfl, rfl, ?_, ?_⟩
            · intro e' he' hg
              have : ¬ (e'.gt e = true ∧ e'.fits r.space ov = true) := by
                intro hc
                apply ha
                exact List.any_eq_true.2 ⟨e', he', by simp [hc.1, hc.2]⟩
              cases hfe : e'.fits r.space ov with
              | false => rfl
              | true => exact absurd ⟨hg, hfe⟩ this
            · simp only; rw [← hd]; omega
            · simp only; omega
      · simp [hf] at h

theorem fillSteps_space {κ} {ov : Nat} {r r' : FillResult κ} {ds : List Bytes} (h : fillSteps ov r ds = some r') :
    r'.written = r.written ++ ds ∧ r'.space + framedLen ov ds = r.space ∧ r'.items + ds.length = r.items := by
  induction ds generalizing r with
  | nil => simp [fillSteps] at h; subst h; simp [framedLen]
  | cons d ds ih =>
    unfold fillSteps at h
    cases hs : fillStep ov r d with
    | none => rw [hs] at h; simp at h
    | some r1 =>
      rw [hs] at h
      simp only at h
      obtain ⟨e, _, _, _, _, _, _, hw, hsp, hit⟩ := fillStep_spec hs
      obtain ⟨h1, h2, h3⟩ := ih h
      refine ⟨by rw [h1, hw]; simp, ?_, by simp; omega⟩
      simp [framedLen] at *
      omega

/-- what `fill` wrote is exactly the oracle's picks, and it fits the space it was given -/
theorem fill_space {κ} {b : List (Entry κ)} {space mi ov : Nat} {picks : List Bytes} {r : FillResult κ}
    (h : fill b space mi ov picks = some r) :
    r.written = picks ∧ r.space + framedLen ov picks = space ∧ picks.length ≤ mi := by
  unfold fill at h
  cases hs : fillSteps ov ⟨b, [], [], space, mi⟩ picks with
  | none => rw [hs] at h; simp at h
  | some r1 =>
    rw [hs] at h
    simp only at h
    by_cases hf : fillFinal ov r1 = true
    · simp [hf] at h
      subst h
      obtain ⟨h1, h2, h3⟩ := fillSteps_space hs
      simp at h1 h2 h3
      exact ⟨h1, h2, by omega⟩
    · simp [hf] at h

/-- nothing that still fits is left behind (unless the buffer is full or the item budget is used) -/
theorem fill_maximal {κ} {b : List (Entry κ)} {space mi ov : Nat} {picks : List Bytes} {r : FillResult κ}
    (h : fill b space mi ov picks = some r) :
    r.space = 0 ∨ r.items = 0 ∨ ∀ e ∈ r.pending, e.fits r.space ov = false := by
  unfold fill at h
  cases hs : fillSteps ov ⟨b, [], [], space, mi⟩ picks with
  | none => rw [hs] at h; simp at h
  | some r1 =>
    rw [hs] at h
    simp only at h
    by_cases hf : fillFinal ov r1 = true
    · simp [hf] at h
      subst h
      unfold fillFinal at hf
      simp only [Bool.or_eq_true, beq_iff_eq, List.all_eq_true, Bool.not_eq_true'] at hf
      rcases hf with (h1 | h1) | h1
      · exact Or.inl h1
      · exact Or.inr (Or.inl h1)
      · exact Or.inr (Or.inr h1)
    · simp [hf] at h

end Foca
