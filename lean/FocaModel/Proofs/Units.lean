/-
  Exact effects of the unit `apply_existing_if` + `handle_apply_summary`, used by the failed-probe-round
  theorem (C12) and the effective-timeout theorem (C11).
-/
import FocaModel.Proofs.SendAll
namespace Foca

/-- everything `handle_apply_summary` emits for a summary: the forget-timer of a member that just went down, the
    Rename of a replaced identity, MemberUp / MemberDown when the active set changed -/
def summaryEffects (rda : Nat) (sm : Summary) (u : Member) : List Effect :=
  (if sm.applied && !sm.activeNow then [.timer rda (.rm u.id)] else [])
    ++ (match sm.conflict with | .replaced old => [.notify (.rename old u.id)] | _ => [])
    ++ (if sm.changedActive then (if sm.activeNow then [.notify (.up u.id)] else [.notify (.down u.id)]) else [])

/-- suspicion timeouts among the effects -/
def isS2d : Effect → Bool
  | .timer _ (.s2d _ _ _) => true
  | _ => false

def isSend : Effect → Bool
  | .send _ _ => true
  | _ => false

theorem summaryEffects_plain (rda : Nat) (sm : Summary) (u : Member) :
    ∀ e ∈ summaryEffects rda sm u, isS2d e = false ∧ isSend e = false := by
  intro e he
  unfold summaryEffects at he
  simp only [List.mem_append] at he
  rcases he with (he | he) | he
  · split at he
    · simp at he; subst he; exact ⟨rfl, rfl⟩
    · simp at he
  · split at he
    · simp at he; subst he; exact ⟨rfl, rfl⟩
    · simp at he
  · split at he
    · split at he <;> simp at he <;> subst he <;> exact ⟨rfl, rfl⟩
    · simp at he

section
variable (E : Env)

/-- what `handle_apply_summary` emits, exactly, and that it only touches the update backlog -/
theorem handleApplySummary_eff (sm : Summary) (u : Member) (b : Bool) (c : Ctx) :
    ∃ c', handleApplySummary E sm u b c = .ok () c' ∧ OnlyBacklogs c.s c'.s ∧
      c'.eff = c.eff ++ summaryEffects c.s.cfg.rda sm u ∧
      (sm.applied = true → b = true → (⟨u.id.addr, c.s.cfg.maxTx, E.codec.encMember u⟩ : Entry Nat) ∈ c'.s.updates) := by
  unfold handleApplySummary
  cases hc : sm.conflict <;> cases h1 : sm.applied <;> cases h2 : sm.activeNow <;> cases h3 : sm.changedActive <;>
    cases b <;> simp [addUpdate, OnlyBacklogs, addOrReplace, summaryEffects, hc, h1, h2, h3]

/-- the unit: the summary it returns, the new member list, and the effects of the report -/
theorem applyExistingReport_some {u : Member} {cond : Member → Bool} {c : Ctx} {ms' : List Member} {sm : Summary}
    (h : applyExisting c.s.ms u cond = some (ms', sm)) :
    ∃ c', applyExistingReport E u cond c = .ok (some sm) c' ∧ c'.s.ms = ms' ∧
      c'.s.numActive = adjustActive c.s.numActive sm ∧ c'.s.cfg = c.s.cfg ∧ c'.s.token = c.s.token ∧
      c'.s.conn = c.s.conn ∧ c'.s.id = c.s.id ∧
      c'.eff = c.eff ++ summaryEffects c.s.cfg.rda sm u ∧
      (sm.applied = true → (⟨u.id.addr, c.s.cfg.maxTx, E.codec.encMember u⟩ : Entry Nat) ∈ c'.s.updates) := by
  unfold applyExistingReport membersApplyExistingIf
  simp only [bind_run, h]
  obtain ⟨c', hrun, hob, heff, hupd⟩ := handleApplySummary_eff E sm u true
    { c with s := { c.s with ms := ms', numActive := adjustActive c.s.numActive sm } }
  refine ⟨c', by simp [hrun], ?_, ?_, ?_, ?_, ?_, ?_, heff, fun ha => hupd ha rfl⟩
  all_goals (unfold OnlyBacklogs at hob; rw [hob])

theorem applyExistingReport_none {u : Member} {cond : Member → Bool} {c : Ctx}
    (h : applyExisting c.s.ms u cond = none) : applyExistingReport E u cond c = .ok none c := by
  unfold applyExistingReport membersApplyExistingIf
  simp [bind_run, h]

end
end Foca
