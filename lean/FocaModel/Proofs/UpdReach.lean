/-
  The update backlog of an instance evolves by backlog operations only: every public call takes `updates`
  to the result of a sequence of `enqueue` (a newly applied update) and `fill` (one piggybacking datagram).
  Together with `Lifetime.lean`: an update is written at most `max_transmissions` times before it is replaced.
-/
import FocaModel.Proofs.Lifetime
import FocaModel.Proofs.UpdInv
namespace Foca

/-- `s.updates` is reachable from `b0` by backlog operations -/
def UpdReach (b0 : List (Entry Nat)) (s : State) : Prop := ∃ ops, runOps b0 ops = some s.updates

theorem runOps_append (b : List (Entry Nat)) (ops1 ops2 : List BOp) (b1 : List (Entry Nat))
    (h : runOps b ops1 = some b1) : runOps b (ops1 ++ ops2) = runOps b1 ops2 := by
  induction ops1 generalizing b with
  | nil => simp [runOps] at h; subst h; rfl
  | cons op ops ih =>
    simp only [List.cons_append]
    rw [runOps] at h
    rw [runOps]
    cases hr : op.run b with
    | none => rw [hr] at h; simp at h
    | some b' => rw [hr] at h; simp only at h ⊢; exact ih b' h

theorem UpdReach.leaves (E : Env) (b0 : List (Entry Nat)) : Leaves E (UpdReach b0) :=
  Leaves.of_ignoresMembership
    (by intro s s' h hs; unfold UpdReach at *; rw [h]; exact hs)
    (fun d m => ⟨fun c hc => by
      have h1 := sendMessage_upd E d m c
      have h2 := sendMessage_spec E d m c
      cases h : Foca.sendMessage E d m c with
      | stuck x => trivial
      | err e c' => rw [h] at h2; simp only at h2 ⊢; rw [h2.2.1]; exact hc
      | ok a c' =>
        rw [h] at h1
        simp only at h1 ⊢
        obtain ⟨ops, hops⟩ := hc
        rcases h1 with h1 | ⟨sp, picks, r, hf, h1⟩
        · exact ⟨ops, by rw [h1]; exact hops⟩
        · refine ⟨ops ++ [.fill sp picks], ?_⟩
          rw [runOps_append _ _ _ _ hops, h1]
          simp [runOps, BOp.run, hf]⟩)
    (fun m => by
      unfold Foca.addUpdate
      refine Pres.modS_of (fun s hs => ?_)
      obtain ⟨ops, hops⟩ := hs
      refine ⟨ops ++ [.enqueue m.id.addr (E.codec.encMember m) s.cfg.maxTx], ?_⟩
      rw [runOps_append _ _ _ _ hops]
      simp [runOps, BOp.run])
    (fun f h => Pres.modS_of (fun s hs => by unfold UpdReach at *; rw [(h s).2.2.1]; exact hs))
    (fun f h => Pres.modS_of (fun s hs => by unfold UpdReach at *; rw [(h s).2.2.1]; exact hs))

/-- One public call — any input, any RNG, any tie order — changes the update backlog only by backlog operations. -/
theorem updates_evolve_by_backlog_ops (E : Env) (s : State) (op : Op) (orc : Oracle) :
    match step E s op orc with
    | .done s' _ _ _ => ∃ ops, runOps s.updates ops = some s'.updates
    | .stuck _ => True :=
  (UpdReach.leaves E s.updates).step s op orc ⟨[], rfl⟩

end Foca
