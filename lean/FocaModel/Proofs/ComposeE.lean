/-
  Generic composition for invariants over state *and* the effects emitted so far, with the side conditions of
  `Compose` (which updates may be stored): the walk of `Compose.lean` in `PresE` form. Emitting anything that is
  not a datagram is one leaf, `send_message` another.
-/
import FocaModel.Proofs.InvE
import FocaModel.Proofs.Units
namespace Foca

/-- indirect-probe timers among the effects -/
def isIndirectT : Effect → Bool
  | .timer _ (.indirect _ _) => true
  | _ => false

/-- `handle_apply_summary` from its one state-changing leaf -/
theorem handleApplySummary_presE {E : Env} {P : State → List Effect → Prop} {u : Member} (hadd : PresE P (addUpdate E u))
    (hemit : ∀ e, isSend e = false → isS2d e = false → isIndirectT e = false → PresE P (emit e))
    (sm : Summary) (b : Bool) : PresE P (handleApplySummary E sm u b) := by
  unfold Foca.handleApplySummary
  prese
  all_goals first | exact hadd | exact hemit _ rfl rfl rfl

/-- the unit `apply_existing_if` + report from its leaves -/
theorem applyExistingReport_presE {E : Env} {P : State → List Effect → Prop} {u : Member} {cond : Member → Bool}
    (h1 : PresE P (membersApplyExistingIf u cond)) (hadd : PresE P (addUpdate E u))
    (hemit : ∀ e, isSend e = false → isS2d e = false → isIndirectT e = false → PresE P (emit e)) :
    PresE P (applyExistingReport E u cond) := by
  unfold Foca.applyExistingReport
  refine PresE.bind h1 (fun r => ?_)
  split
  · exact PresE.bind (handleApplySummary_presE hadd hemit _ _) (fun _ => PresE.pure _)
  · exact PresE.pure _

/-- leaf obligations, identity/incarnation writers excluded. `okU u`: the update `u` may be stored; `okD d`: a
    datagram may be addressed to `d`; `okM m`: the message `m` may be sent (pure side conditions; `fun _ => True`
    for invariants that do not care). -/
structure BaseE (E : Env) (P : State → List Effect → Prop) (okU : Member → Prop) (okD : Id → Prop) (okM : Msg → Prop) :
    Prop where
  /-- the Down-at-incarnation-0 update the instance makes up about its own (previous) identity -/
  ownDown : ∀ s eff, P s eff → okU ⟨s.id, 0, .down⟩
  /-- anything emitted that is neither a datagram nor a suspicion or indirect-probe timer -/
  emitNS : ∀ e, isSend e = false → isS2d e = false → isIndirectT e = false → PresE P (emit e)
  /-- the indirect-probe timer of a round names the member being probed -/
  emitIndirect : ∀ p after tok, okD p → PresE P (emit (.timer after (.indirect p tok)))
  /-- every listed member may be a destination; so may the subject of any storable update -/
  memberDst : ∀ s eff m, P s eff → m ∈ s.ms → okD m.id
  updDst : ∀ u, okU u → okD u.id
  plainMsg : okM .gossip ∧ okM .announce ∧ okM .broadcast ∧ okM .feed ∧ okM .turnUndead
  pingMsg : ∀ s eff, P s eff → okM (.ping s.probe.number)
  pingReqMsg : ∀ s eff p, P s eff → okD p → okM (.pingReq p s.probe.number)
  membersApply : ∀ u, okU u → PresE P (membersApply u)
  membersApplyExistingIf : ∀ u cond, okU u → PresE P (membersApplyExistingIf u cond)
  /-- the member `next` returns may become the probe target -/
  membersNext : PresER P (fun r => ∀ m, r = some m → okU ⟨m.id, m.inc, .suspect⟩) membersNext
  startProbe : ∀ m, okU ⟨m.id, m.inc, .suspect⟩ → PresE P (modS fun s => { s with probe := s.probe.start m })
  sendMessage : ∀ d m, okD d → okM m → PresE P (sendMessage E d m)
  addUpdate : ∀ m, okU m → PresE P (addUpdate E m)
  modCtl : ∀ f, CtlKeep f → PresE P (modS f)
  /-- handler state only -/
  setHst : ∀ h', PresE P (modS fun s => { s with hst := h' })
  /-- a custom broadcast accepted by the handler is enqueued (it is never empty) -/
  addCustom : ∀ h' key data, 1 ≤ data.length → PresE P (modS fun s =>
    { s with hst := h', custom := addOrReplace s.custom E.handler.invalidates key data s.cfg.maxTx })

section
variable {E : Env} {P : State → List Effect → Prop} {okU : Member → Prop} {okD : Id → Prop} {okM : Msg → Prop}
  (B : BaseE E P okU okD okM)
include B

theorem BaseE.ctl (f : State → State)
    (h : ∀ s, (f s).ms = s.ms ∧ (f s).numActive = s.numActive ∧ (f s).updates = s.updates ∧
      (f s).custom = s.custom ∧ (f s).cursor = s.cursor ∧ (f s).id = s.id ∧ (f s).inc = s.inc ∧
      (f s).policy = s.policy ∧ ProbeKeep s.probe (f s).probe ∧ (f s).probe.number = s.probe.number := by
        intro s; exact ⟨rfl, rfl, rfl, rfl, rfl, rfl, rfl, rfl, by first | exact Or.inl rfl | exact Or.inr rfl, rfl⟩) :
    PresE P (modS f) := B.modCtl f h

theorem BaseE.chooseLoop (w : Nat) (pick : Member → Bool) (l out : List Member) (seen : Nat) :
    PresE P (Foca.chooseLoop w pick l out seen) := by
  constructor
  intro c hc
  have := chooseLoop_spec w pick l out seen c
  cases h : Foca.chooseLoop w pick l out seen c with
  | stuck x => trivial
  | err e c' => rw [h] at this; exact this.elim
  | ok a c' => rw [h] at this; simp only; rw [this.1, this.2.1]; exact hc

theorem BaseE.sendAll (msg : Msg) (ds : List Id) (hm : okM msg) (hds : ∀ d ∈ ds, okD d) :
    PresE P (Foca.sendAll E msg ds) := by
  induction ds with
  | nil => unfold Foca.sendAll; exact PresE.pure _
  | cons d rest ih =>
    unfold Foca.sendAll
    exact PresE.bind (B.sendMessage d msg (hds d (by simp)) hm) (fun _ => ih (fun x hx => hds x (by simp [hx])))

theorem BaseE.chooseAndSend (n : Nat) (msg : Msg) (hm : okM msg) : PresE P (Foca.chooseAndSend E n msg) := by
  unfold Foca.chooseAndSend
  refine PresE.getS_with (fun s eff hs => ?_)
  refine PresER.bind (PresER.chooseLoop _ _ _) (fun chosen hch => ?_)
  refine B.sendAll _ _ hm (fun d hd => ?_)
  simp only [List.mem_map, List.mem_reverse] at hd
  obtain ⟨m, hmem, rfl⟩ := hd
  exact B.memberDst s eff m hs (hch m hmem).1

theorem BaseE.gossip : PresE P (Foca.gossip E) := by
  unfold Foca.gossip
  prese
  exact B.chooseAndSend _ _ B.plainMsg.1

theorem BaseE.announceToDown (n : Nat) : PresE P (Foca.announceToDown E n) := by
  unfold Foca.announceToDown
  refine PresE.getS_with (fun s eff hs => ?_)
  refine PresER.bind (PresER.chooseLoop _ _ _) (fun chosen hch => ?_)
  refine B.sendAll _ _ B.plainMsg.2.1 (fun d hd => ?_)
  simp only [List.mem_map, List.mem_reverse] at hd
  obtain ⟨m, hmem, rfl⟩ := hd
  exact B.memberDst s eff m hs (hch m hmem).1

theorem BaseE.becomeUndead : PresE P Foca.becomeUndead := by
  unfold Foca.becomeUndead
  prese
  all_goals first | exact B.ctl _ | exact B.emitNS _ rfl rfl rfl

theorem BaseE.becomeDisconnected : PresE P (Foca.becomeDisconnected E) := by
  unfold Foca.becomeDisconnected
  prese
  all_goals first | exact B.ctl _ | exact B.emitNS _ rfl rfl rfl

theorem BaseE.becomeConnected : PresE P (Foca.becomeConnected E) := by
  unfold Foca.becomeConnected
  prese
  all_goals first | exact B.ctl _ | exact B.emitNS _ rfl rfl rfl

theorem BaseE.adjustConnectionState : PresE P (Foca.adjustConnectionState E) := by
  unfold Foca.adjustConnectionState
  prese
  · exact B.becomeConnected
  · exact B.becomeDisconnected

theorem BaseE.handleApplySummary (sm : Summary) (u : Member) (b : Bool) (hu : okU u) :
    PresE P (Foca.handleApplySummary E sm u b) :=
  handleApplySummary_presE (B.addUpdate u hu) B.emitNS sm b

theorem BaseE.applyUpdate (u : Member) (b : Bool) (hu : okU u) : PresE P (Foca.applyUpdate E u b) := by
  unfold Foca.applyUpdate
  prese
  · exact B.membersApply u hu
  · exact B.handleApplySummary _ _ _ hu

theorem BaseE.applyExistingReport (u : Member) (cond : Member → Bool) (hu : okU u) :
    PresE P (Foca.applyExistingReport E u cond) :=
  applyExistingReport_presE (B.membersApplyExistingIf u cond hu) (B.addUpdate u hu) B.emitNS

theorem BaseE.broadcastLoop (ds : List Id) (hds : ∀ d ∈ ds, okD d) : PresE P (Foca.broadcastLoop E ds) := by
  induction ds with
  | nil => unfold Foca.broadcastLoop; exact PresE.pure _
  | cons d rest ih =>
    unfold Foca.broadcastLoop
    prese
    · exact B.sendMessage _ _ (hds d (by simp)) B.plainMsg.2.2.1
    · exact ih (fun x hx => hds x (by simp [hx]))

theorem BaseE.broadcastApi : PresE P (Foca.broadcastApi E) := by
  unfold Foca.broadcastApi
  refine PresE.getS_with (fun s eff hs => ?_)
  split
  · exact PresE.pure _
  · refine PresER.bind (PresER.chooseLoop _ _ _) (fun chosen hch => ?_)
    refine B.broadcastLoop _ (fun d hd => ?_)
    simp only [List.mem_map, List.mem_reverse] at hd
    obtain ⟨m, hmem, rfl⟩ := hd
    exact B.memberDst s eff m hs (hch m hmem).1

theorem BaseE.leaveCluster : PresE P (Foca.leaveCluster E) := by
  unfold Foca.leaveCluster
  refine PresE.getS_with (fun s eff hs => ?_)
  prese
  · exact B.addUpdate _ (B.ownDown s eff hs)
  · exact B.gossip
  · exact B.becomeUndead

theorem BaseE.addBroadcast (d : Bytes) : PresE P (Foca.addBroadcast E d) := by
  unfold Foca.addBroadcast
  refine PresE.bind PresE.getS (fun s => ?_)
  by_cases he : d.isEmpty = true
  · simp only [he, if_true]; exact PresE.throwE _
  · have hlen : 1 ≤ d.length := by
      cases d with
      | nil => simp at he
      | cons x xs => simp
    simp only [he, Bool.false_eq_true, if_false]
    prese
    all_goals first | exact B.setHst _ | exact B.addCustom _ _ _ hlen

theorem BaseE.setConfig (cfg : Config) : PresE P (Foca.setConfig cfg) := by
  unfold Foca.setConfig
  prese
  exact B.ctl _

theorem BaseE.pingReqLoop (probed : Id) (ds : List Id) (hp : okD probed) (hds : ∀ d ∈ ds, okD d) :
    PresE P (Foca.pingReqLoop E probed ds) := by
  induction ds with
  | nil => unfold Foca.pingReqLoop; exact PresE.pure _
  | cons d rest ih =>
    unfold Foca.pingReqLoop
    refine PresE.getS_with (fun s eff hs => ?_)
    refine PresE.ite (PresE.panicAt _) ?_
    refine PresE.bind (B.ctl _) (fun _ => ?_)
    exact PresE.bind (B.sendMessage _ _ (hds d (by simp)) (B.pingReqMsg s eff probed hs hp))
      (fun _ => ih (fun x hx => hds x (by simp [hx])))

theorem BaseE.customLoop (sender : Option Id) (fuel : Nat) (data : Bytes) : PresE P (Foca.customLoop E sender fuel data) := by
  induction fuel generalizing data with
  | zero => unfold Foca.customLoop; exact PresE.throwE _
  | succ f ih =>
    unfold Foca.customLoop
    split
    · split
      · rename_i hi lo rest _
        dsimp only
        by_cases hbad : (hi * 256 + lo == 0 || decide (rest.length < hi * 256 + lo)) = true
        · simp only [hbad, if_true]; exact PresE.throwE _
        · have hlen : 1 ≤ (rest.take (hi * 256 + lo)).length := by
            simp only [Bool.or_eq_true, beq_iff_eq, decide_eq_true_eq, not_or, Nat.not_lt] at hbad
            rw [List.length_take]
            omega
          simp only [hbad, Bool.false_eq_true, if_false]
          prese
          all_goals first
            | exact B.setHst _
            | exact B.addCustom _ _ _ hlen
            | exact ih _
      · exact PresE.throwE _
    · prese

theorem BaseE.handleCustomBroadcasts (data : Bytes) (sender : Option Id) :
    PresE P (Foca.handleCustomBroadcasts E data sender) := by
  unfold Foca.handleCustomBroadcasts
  prese
  exact B.customLoop _ _ _

end

section
variable {E : Env} {P : State → List Effect → Prop} {okU : Member → Prop} {okD : Id → Prop} {okM : Msg → Prop}
  (B : BaseE E P okU okD okM)
  (modId : ∀ f, IdCtl f → PresE P (modS f))
include B modId

/-! the identity / incarnation writers, for an invariant that does not look at identity or incarnation -/

theorem BaseE.reset_of : PresE P Foca.reset := by
  unfold Foca.reset
  exact modId _ (fun s => ⟨rfl, rfl, rfl, rfl, rfl, Or.inr rfl, rfl⟩)

theorem BaseE.changeIdentity_of (i : Id) (p : Policy) : PresE P (Foca.changeIdentity E i p) := by
  unfold Foca.changeIdentity
  refine PresE.getS_with (fun s eff hs => ?_)
  prese
  all_goals first
    | exact modId _ (fun s => ⟨rfl, rfl, rfl, rfl, rfl, Or.inl rfl, rfl⟩)
    | exact B.reset_of modId
    | exact B.addUpdate _ (B.ownDown s eff hs)
    | exact B.gossip

theorem BaseE.attemptRejoin_of : PresE P (Foca.attemptRejoin E) := by
  unfold Foca.attemptRejoin
  prese
  all_goals first | exact B.changeIdentity_of modId _ _ | exact B.emitNS _ rfl rfl rfl

theorem BaseE.handleSelfUpdate_of (inc : Nat) (st : St) : PresE P (Foca.handleSelfUpdate E inc st) := by
  unfold Foca.handleSelfUpdate
  prese
  all_goals first
    | exact B.attemptRejoin_of modId
    | exact B.becomeUndead
    | exact B.gossip
    | exact modId _ (fun s => ⟨rfl, rfl, rfl, rfl, rfl, Or.inl rfl, rfl⟩)

theorem BaseE.reuseDownIdentity_of : PresE P Foca.reuseDownIdentity := by
  unfold Foca.reuseDownIdentity
  prese
  exact B.reset_of modId

end

/-- `Base` plus `handle_self_update` and the three places where an update is built from the state that was
    read together with the call's input: the sender of a datagram, an update about another address, the failed
    probe target. `okIn` / `okH`: what is known about the members / the header of the call's input. -/
structure FullE (E : Env) (P : State → List Effect → Prop) (okU okIn : Member → Prop) (okH : Header → Prop)
    (okD : Id → Prop) (okM : Msg → Prop) : Prop
    extends BaseE E P okU okD okM where
  handleSelfUpdate : ∀ inc st, PresE P (handleSelfUpdate E inc st)
  /-- the suspicion timer of a failed probe round names the member that may be stored as Suspect -/
  emitS2d : ∀ m inc after tok, okU ⟨m, inc, .suspect⟩ → PresE P (emit (.timer after (.s2d m inc tok)))
  /-- another identity of the own address named by the input is stored as Down at incarnation 0 -/
  inputDown : ∀ u, okIn u → okU ⟨u.id, 0, .down⟩
  senderOk : ∀ (s0 : State) (eff0 : List Effect) (h : Header), okH h → P s0 eff0 → (h.src == s0.id || h.src.addr == s0.id.addr) = false →
    okU ⟨h.src, h.srcInc, .alive⟩
  applyOk : ∀ (s0 : State) (eff0 : List Effect) (u : Member), okIn u → P s0 eff0 → (u.id == s0.id) = false →
    (s0.id.addr == u.id.addr) = false → okU u
  failedOk : ∀ (s0 : State) (eff0 : List Effect) (m : Member), P s0 eff0 → s0.probe.takeFailed.1 = some m → okU ⟨m.id, m.inc, .suspect⟩
  /-- what the reply table sends in answer to an acceptable header -/
  replyOk : ∀ h, okH h → okD h.src ∧ (∀ n, h.msg = .ping n → okM (.ack n)) ∧
    (∀ t n, h.msg = .pingReq t n → okD t ∧ okM (.indirectPing h.src n)) ∧
    (∀ o n, h.msg = .indirectPing o n → okM (.indirectAck o n)) ∧
    (∀ t n, h.msg = .indirectAck t n → okD t ∧ okM (.forwardedAck h.src n))

section
variable {E : Env} {P : State → List Effect → Prop} {okU okIn : Member → Prop} {okH : Header → Prop}
  {okD : Id → Prop} {okM : Msg → Prop} (F : FullE E P okU okIn okH okD okM)
include F

theorem FullE.probeSuspectFailed : PresE P (Foca.probeSuspectFailed E) := by
  unfold Foca.probeSuspectFailed
  refine PresE.getS_modS_bind (g := fun s s' => { s' with probe := s.probe.takeFailed.2 }) (fun s eff hs => ?_) (fun s eff hs => ?_)
  · exact PresE.modS_at (F.toBaseE.ctl (fun s => { s with probe := s.probe.takeFailed.2 })
      (fun s => ⟨rfl, rfl, rfl, rfl, rfl, rfl, rfl, rfl, ProbeKeep.takeFailed _, Probe.takeFailed_number _⟩)) s eff hs
  · split
    · rename_i failed hf
      refine PresE.bind (F.toBaseE.applyExistingReport _ _ (F.failedOk s eff failed hs hf)) (fun r => ?_)
      split
      · split
        · exact PresE.bind PresE.getS (fun _ => F.emitS2d _ _ _ _ (F.failedOk s eff failed hs hf))
        · exact PresE.pure _
      · exact PresE.pure _
    · exact PresE.pure _

theorem FullE.probeStartNext : PresE P (Foca.probeStartNext E) := by
  unfold Foca.probeStartNext
  refine PresER.bind F.membersNext (fun r hr => ?_)
  split
  · rename_i member
    have hd : okD member.id := F.updDst ⟨member.id, member.inc, .suspect⟩ (hr member rfl)
    refine PresE.bind (F.startProbe member (hr member rfl)) (fun _ => ?_)
    refine PresE.getS_with (fun s eff hs => ?_)
    exact PresE.bind (F.sendMessage _ _ hd (F.pingMsg s eff hs)) (fun _ => F.emitIndirect _ _ _ hd)
  · exact PresE.pure _

theorem FullE.probeRandomMember : PresE P (Foca.probeRandomMember E) := by
  unfold Foca.probeRandomMember
  prese
  all_goals first
    | exact F.toBaseE.ctl _
    | exact F.probeSuspectFailed
    | exact F.probeStartNext
    | exact F.emitNS _ rfl rfl rfl

/-- `handle_timer`; the one update built from the timer itself (the suspicion timeout) must be storable, the
    member an indirect-probe timer names must be an acceptable destination -/
theorem FullE.handleTimer (t : Timer) (ht : ∀ m inc tok, t = .s2d m inc tok → okU ⟨m, inc, .down⟩)
    (hind : ∀ p tok, t = .indirect p tok → okD p)
    (hrm : ∀ id, t = .rm id → PresE P (modS fun s => { s with ms := removeIfDown s.ms id })) :
    PresE P (Foca.handleTimer E t) := by
  unfold Foca.handleTimer
  refine PresE.getS_with (fun s eff hs => ?_)
  cases t with
  | indirect probed tok =>
    dsimp only
    repeat' first
      | exact PresE.pure _
      | exact F.toBaseE.ctl _
      | refine PresER.bind (PresER.chooseLoop _ _ _) (fun chosen hch => ?_)
      | with_reducible apply PresE.bind
      | with_reducible apply PresE.ite
      | (intro _; try dsimp only)
    · refine F.toBaseE.pingReqLoop _ _ (hind _ _ rfl) (fun d hd => ?_)
      simp only [List.mem_map, List.mem_reverse] at hd
      obtain ⟨m, hm, rfl⟩ := hd
      exact F.memberDst s eff m hs (hch m hm).1
  | s2d m inc tok =>
    dsimp only
    prese
    all_goals first
      | exact F.toBaseE.applyExistingReport _ _ (ht _ _ _ rfl)
      | exact F.toBaseE.adjustConnectionState
      | exact F.sendMessage _ _ (F.updDst _ (ht _ _ _ rfl)) F.plainMsg.2.2.2.2
  | rm down => exact hrm _ rfl
  | probe tok =>
    dsimp only
    prese
    exact F.probeRandomMember
  | pa tok =>
    dsimp only
    prese
    all_goals first
      | exact F.toBaseE.chooseAndSend _ _ F.plainMsg.2.1
      | exact F.emitNS _ rfl rfl rfl
  | pad tok =>
    dsimp only
    prese
    all_goals first
      | exact F.toBaseE.announceToDown _
      | exact F.emitNS _ rfl rfl rfl
  | pg tok =>
    dsimp only
    prese
    all_goals first
      | exact F.toBaseE.chooseAndSend _ _ F.plainMsg.1
      | exact F.toBaseE.gossip
      | exact F.emitNS _ rfl rfl rfl

theorem FullE.applyOne (u : Member) (b : Bool) (hu : okIn u) : PresE P (Foca.applyOne E u b) := by
  unfold Foca.applyOne
  refine PresE.getS_with (fun s eff hs => ?_)
  split
  · exact F.handleSelfUpdate _ _
  · rename_i h1
    split
    · exact PresE.bind (F.toBaseE.applyUpdate _ _ (F.inputDown u hu)) (fun _ => PresE.pure _)
    · rename_i h2
      exact PresE.bind (F.toBaseE.applyUpdate _ _ (F.applyOk s eff u hu hs (by simpa using h1) (by simpa using h2))) (fun _ => PresE.pure _)

theorem FullE.applyLoop (b : Bool) (us : List Member) (hus : ∀ u ∈ us, okIn u) : PresE P (Foca.applyLoop E b us) := by
  induction us with
  | nil => unfold Foca.applyLoop; exact PresE.pure _
  | cons u rest ih =>
    unfold Foca.applyLoop
    exact PresE.bind (F.applyOne u b (hus u (by simp))) (fun _ => ih (fun x hx => hus x (by simp [hx])))

theorem FullE.applyMany (us : List Member) (b : Bool) (hus : ∀ u ∈ us, okIn u) : PresE P (Foca.applyMany E us b) := by
  unfold Foca.applyMany
  prese
  · exact F.applyLoop _ _ hus
  · exact F.toBaseE.adjustConnectionState

theorem FullE.reactToMessage (h : Header) (hh : okH h) : PresE P (Foca.reactToMessage E h) := by
  obtain ⟨hsrc, hping, hreq, hiping, hiack⟩ := F.replyOk h hh
  unfold Foca.reactToMessage
  refine PresE.bind PresE.getS (fun s => ?_)
  cases hm : h.msg with
  | ping n => exact F.sendMessage _ _ hsrc (hping n hm)
  | ack n => exact F.toBaseE.ctl _ (fun s => ⟨rfl, rfl, rfl, rfl, rfl, rfl, rfl, rfl, ProbeKeep.receiveAck _ _ _, Probe.receiveAck_number _ _ _⟩)
  | pingReq t n =>
    dsimp only
    exact PresE.ite (PresE.throwE _) (F.sendMessage _ _ (hreq t n hm).1 (hreq t n hm).2)
  | indirectPing o n =>
    dsimp only
    exact PresE.ite (PresE.throwE _) (F.sendMessage _ _ hsrc (hiping o n hm))
  | indirectAck t n =>
    dsimp only
    exact PresE.ite (PresE.throwE _) (F.sendMessage _ _ (hiack t n hm).1 (hiack t n hm).2)
  | forwardedAck o n =>
    dsimp only
    exact PresE.ite (PresE.throwE _) (F.toBaseE.ctl _ (fun s => ⟨rfl, rfl, rfl, rfl, rfl, rfl, rfl, rfl, ProbeKeep.receiveIndirectAck _ _ _, Probe.receiveIndirectAck_number _ _ _⟩))
  | announce => exact F.sendMessage _ _ hsrc F.plainMsg.2.2.2.1
  | turnUndead => exact F.handleSelfUpdate _ _
  | gossip => exact PresE.pure _
  | feed => exact PresE.pure _
  | broadcast => exact PresE.pure _

theorem FullE.inactiveSender (h : Header) (hh : okH h) : PresE P (Foca.inactiveSender E h) := by
  have hsrc := (F.replyOk h hh).1
  unfold Foca.inactiveSender
  prese
  all_goals first
    | exact F.handleSelfUpdate _ _
    | exact F.sendMessage _ _ hsrc F.plainMsg.2.2.2.2

theorem FullE.replyStage (h : Header) (cres : Option ErrKind) (hh : okH h) : PresE P (Foca.replyStage E h cres) := by
  unfold Foca.replyStage
  prese
  exact F.reactToMessage _ hh

theorem FullE.handleData (data : Bytes) (hdat : DataOk E okIn okH data) : PresE P (Foca.handleData E data) := by
  unfold Foca.handleData
  refine PresE.getS_with (fun s eff hs => ?_)
  split
  · exact PresE.throwE _
  · split
    · exact PresE.throwE _
    · rename_i h rest hdec
      split
      · exact PresE.throwE _
      · rename_i hsrc
        dsimp only
        split
        · exact PresE.throwE _
        · split
          · exact PresE.pure _
          · split
            · exact PresE.throwE _
            · rename_i updates tail hparse
              obtain ⟨hh, hmem⟩ := hdat h rest hdec
              refine PresE.bind (F.toBaseE.applyUpdate _ _ (F.senderOk s eff h hh hs (by simpa using hsrc))) (fun senderActive => ?_)
              split
              · exact F.inactiveSender _ hh
              · exact PresE.bind (F.applyMany _ _ (hmem updates tail hparse)) (fun _ =>
                  PresE.bind (PresE.attempt (F.toBaseE.handleCustomBroadcasts _ _)) (fun _ => F.replyStage _ _ hh))

/-- every public call; the two identity-changing calls and what is known about the input are hypotheses -/
theorem FullE.runOp (op : Op)
    (hchid : ∀ i p, op = .changeIdentity i p → PresE P (Foca.changeIdentity E i p))
    (hreuse : op = .reuseDown → PresE P Foca.reuseDownIdentity)
    (hT : ∀ m inc tok, op = .timer (.s2d m inc tok) → okU ⟨m, inc, .down⟩)
    (hI : ∀ p tok, op = .timer (.indirect p tok) → okD p)
    (hAnn : ∀ d, op = .announce d → okD d)
    (hA : ∀ us b, op = .applyMany us b → ∀ u ∈ us, okIn u)
    (hD : ∀ data, op = .data data → DataOk E okIn okH data)
    (hRm : ∀ id, op = .timer (.rm id) → PresE P (modS fun s => { s with ms := removeIfDown s.ms id })) :
    PresE P (Foca.runOp E op) := by
  cases op <;> unfold Foca.runOp <;> prese
  all_goals first
    | exact hchid _ _ rfl
    | exact hreuse rfl
    | exact F.handleTimer _ (fun m inc tok h => hT m inc tok (by rw [h])) (fun p tok h => hI p tok (by rw [h]))
        (fun id h => hRm id (by rw [h]))
    | exact F.applyMany _ _ (hA _ _ rfl)
    | exact F.handleData _ (hD _ rfl)
    | exact F.sendMessage _ _ (hAnn _ rfl) F.plainMsg.2.1
    | exact F.toBaseE.gossip
    | exact F.toBaseE.broadcastApi
    | exact F.toBaseE.leaveCluster
    | exact F.toBaseE.addBroadcast _
    | exact F.toBaseE.setConfig _

end


end Foca
