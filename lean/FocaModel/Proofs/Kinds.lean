/-
  Which kinds of message one delivered datagram makes an instance send. `Says K m`: every datagram in the effects
  was built by `send_message` around a header whose message kind satisfies `K`, and `m` keeps it so. The part of
  `handle_data` that applies the updates sends only Gossip (rounds of a refutation or of an identity renewal);
  the reply stage adds at most one more datagram, the automatic answer. Used for "no cycle of automatic replies
  persists" (C18).
-/
import FocaModel.Proofs.FanOut
namespace Foca

/-- datagram `b`, handed to the runtime for `d`, is a header for `d` with a message kind in `K`, followed by a body -/
def BuiltAs (E : Env) (K : Msg → Prop) (d : Id) (b : Bytes) : Prop :=
  ∃ h body, b = E.codec.encHeader h ++ body ∧ h.dst = d ∧ K h.msg

def SaysOnly (E : Env) (K : Msg → Prop) (eff : List Effect) : Prop :=
  ∀ d b, Effect.send d b ∈ eff → BuiltAs E K d b

abbrev Says (E : Env) (K : Msg → Prop) {α} (m : M α) : Prop := PresE (fun _ eff => SaysOnly E K eff) m

theorem SaysOnly.nil (E : Env) (K : Msg → Prop) : SaysOnly E K [] := by intro d b h; simp at h

theorem SaysOnly.append {E : Env} {K : Msg → Prop} {a b : List Effect} (ha : SaysOnly E K a) (hb : SaysOnly E K b) :
    SaysOnly E K (a ++ b) := by
  intro d x h
  rcases List.mem_append.1 h with h | h
  · exact ha d x h
  · exact hb d x h

theorem SaysOnly.mono {E : Env} {K K' : Msg → Prop} (hk : ∀ m, K m → K' m) {a : List Effect} (ha : SaysOnly E K a) :
    SaysOnly E K' a := by
  intro d x h
  obtain ⟨hd, body, h1, h2, h3⟩ := ha d x h
  exact ⟨hd, body, h1, h2, hk _ h3⟩

theorem SaysOnly.nonsend {E : Env} {K : Msg → Prop} {a : List Effect} {e : Effect} (ha : SaysOnly E K a)
    (he : isSend e = false) : SaysOnly E K (a ++ [e]) := by
  refine ha.append ?_
  intro d x h
  simp only [List.mem_singleton] at h
  subst h
  simp [isSend] at he

section
variable (E : Env) {K : Msg → Prop}

theorem Says.modS (f : State → State) : Says E K (Foca.modS f) := PresE.modS_of (fun _ _ h => h)

theorem Says.emit (e : Effect) (he : isSend e = false) : Says E K (Foca.emit e) :=
  PresE.emit_of (fun _ _ h => h.nonsend he)

theorem Says.of_silent {α} {m : M α} (hs : Silent m) : Says E K m := by
  constructor
  intro c hc
  have := hs c
  cases hm : m c with
  | stuck x => trivial
  | err e c' => rw [hm] at this; simp only at this ⊢; rw [this]; exact hc
  | ok a c' => rw [hm] at this; simp only at this ⊢; rw [this]; exact hc

theorem Says.membersApply (u : Member) : Says E K (Foca.membersApply u) := Says.of_silent E (Silent.membersApply u)
theorem Says.membersApplyExistingIf (u : Member) (cond : Member → Bool) : Says E K (Foca.membersApplyExistingIf u cond) :=
  Says.of_silent E (Silent.membersApplyExistingIf u cond)

/-- what `send_message` adds: nothing, or one datagram for `d` built around a header of kind `m` -/
theorem sendMessage_adds (d : Id) (m : Msg) (c : Ctx) :
    match Foca.sendMessage E d m c with
    | .ok _ c' => ∃ b, c'.eff = c.eff ++ [.send d b] ∧ BuiltAs E (· = m) d b
    | .err _ c' => c'.eff = c.eff
    | .stuck _ => True := by
  have := sendMessage_spec E d m c
  cases h : Foca.sendMessage E d m c with
  | stuck x => trivial
  | err e c' => rw [h] at this; simp only [SendOK] at this; exact this.2.2
  | ok a c' =>
    rw [h] at this
    simp only [SendOK] at this
    obtain ⟨_, body, heff, _⟩ := this
    exact ⟨_, heff, ⟨c.s.id, c.s.inc, d, m⟩, body, rfl, rfl, rfl⟩

theorem Says.sendMessage (d : Id) (m : Msg) (hm : K m) : Says E K (Foca.sendMessage E d m) := by
  constructor
  intro c hc
  have := sendMessage_adds E d m c
  cases h : Foca.sendMessage E d m c with
  | stuck x => trivial
  | err e c' => rw [h] at this; simp only at this ⊢; rw [this]; exact hc
  | ok a c' =>
    rw [h] at this
    obtain ⟨b, heff, hb⟩ := this
    simp only
    rw [heff]
    refine SaysOnly.append hc ?_
    intro d' x hx
    simp only [List.mem_singleton, Effect.send.injEq] at hx
    obtain ⟨h1, h2⟩ := hx
    subst h1 h2
    obtain ⟨hd, body, e1, e2, e3⟩ := hb
    exact ⟨hd, body, e1, e2, by rw [e3]; exact hm⟩

theorem Says.sendAll (msg : Msg) (ds : List Id) (hm : K msg) : Says E K (Foca.sendAll E msg ds) := by
  induction ds with
  | nil => unfold Foca.sendAll; exact PresE.pure _
  | cons d rest ih =>
    unfold Foca.sendAll
    exact PresE.bind (Says.sendMessage E d msg hm) (fun _ => ih)

theorem Says.chooseLoop (w : Nat) (pick : Member → Bool) (l out : List Member) (seen : Nat) :
    Says E K (Foca.chooseLoop w pick l out seen) := by
  constructor
  intro c hc
  have := chooseLoop_spec w pick l out seen c
  cases h : Foca.chooseLoop w pick l out seen c with
  | stuck x => trivial
  | err e c' => rw [h] at this; exact this.elim
  | ok a c' => rw [h] at this; simp only; rw [this.2.1]; exact hc

end

macro "says_step" : tactic => `(tactic| first
  | exact PresE.pure _
  | exact PresE.getS
  | exact PresE.throwE _
  | exact PresE.panicAt _
  | exact PresE.badOracle _
  | exact PresE.drawIdx _ _
  | exact PresE.nextPick
  | exact Says.modS _ _
  | exact Says.emit _ _ rfl
  | exact Says.membersApply _ _
  | exact Says.membersApplyExistingIf _ _ _
  | exact Says.chooseLoop _ _ _ _ _ _
  | with_reducible apply PresE.bind
  | with_reducible apply PresE.ite
  | (intro _; try dsimp only)
  | split)

macro "says" : tactic => `(tactic| repeat' says_step)

section
variable (E : Env) {K : Msg → Prop}

theorem Says.chooseAndSend (num : Nat) (msg : Msg) (hm : K msg) : Says E K (Foca.chooseAndSend E num msg) := by
  unfold Foca.chooseAndSend
  says
  exact Says.sendAll E _ _ hm

theorem Says.gossip (hg : K .gossip) : Says E K (Foca.gossip E) := by
  unfold Foca.gossip
  says
  exact Says.chooseAndSend E _ _ hg

theorem Says.addUpdate (u : Member) : Says E K (Foca.addUpdate E u) := by
  unfold Foca.addUpdate
  says

theorem Says.reset : Says E K Foca.reset := by
  unfold Foca.reset
  says

theorem Says.changeIdentity (i : Id) (p : Policy) (hg : K .gossip) : Says E K (Foca.changeIdentity E i p) := by
  unfold Foca.changeIdentity
  says
  all_goals first
    | exact Says.reset E
    | exact Says.addUpdate E _
    | exact Says.gossip E hg

theorem Says.attemptRejoin (hg : K .gossip) : Says E K (Foca.attemptRejoin E) := by
  unfold Foca.attemptRejoin
  says
  all_goals exact Says.changeIdentity E _ _ hg

theorem Says.becomeUndead : Says E K Foca.becomeUndead := by
  unfold Foca.becomeUndead
  says

theorem Says.handleSelfUpdate (inc : Nat) (st : St) (hg : K .gossip) : Says E K (Foca.handleSelfUpdate E inc st) := by
  unfold Foca.handleSelfUpdate
  cases st <;> says
  all_goals first
    | exact Says.attemptRejoin E hg
    | exact Says.becomeUndead E
    | exact Says.gossip E hg

theorem Says.handleApplySummary (sm : Summary) (u : Member) (b : Bool) : Says E K (Foca.handleApplySummary E sm u b) := by
  unfold Foca.handleApplySummary
  says
  all_goals exact Says.addUpdate E _

theorem Says.applyUpdate (u : Member) (b : Bool) : Says E K (Foca.applyUpdate E u b) := by
  unfold Foca.applyUpdate
  says
  all_goals exact Says.handleApplySummary E _ _ _

theorem Says.applyOne (u : Member) (b : Bool) (hg : K .gossip) : Says E K (Foca.applyOne E u b) := by
  unfold Foca.applyOne
  says
  all_goals first
    | exact Says.handleSelfUpdate E _ _ hg
    | exact Says.applyUpdate E _ _

theorem Says.applyLoop (b : Bool) (us : List Member) (hg : K .gossip) : Says E K (Foca.applyLoop E b us) := by
  induction us with
  | nil => unfold Foca.applyLoop; exact PresE.pure _
  | cons u rest ih =>
    unfold Foca.applyLoop
    exact PresE.bind (Says.applyOne E u b hg) (fun _ => ih)

theorem Says.adjustConnectionState : Says E K (Foca.adjustConnectionState E) := by
  unfold Foca.adjustConnectionState Foca.becomeConnected Foca.becomeDisconnected
  says

theorem Says.applyMany (us : List Member) (b : Bool) (hg : K .gossip) : Says E K (Foca.applyMany E us b) := by
  unfold Foca.applyMany
  exact PresE.bind (Says.applyLoop E b us hg) (fun _ => Says.adjustConnectionState E)

theorem Says.customLoop (sender : Option Id) (fuel : Nat) (data : Bytes) : Says E K (Foca.customLoop E sender fuel data) := by
  induction fuel generalizing data with
  | zero => unfold Foca.customLoop; exact PresE.throwE _
  | succ f ih =>
    unfold Foca.customLoop
    says
    all_goals exact ih _

theorem Says.handleCustomBroadcasts (data : Bytes) (sender : Option Id) :
    Says E K (Foca.handleCustomBroadcasts E data sender) := by
  unfold Foca.handleCustomBroadcasts
  says
  exact Says.customLoop E _ _ _

end
end Foca
