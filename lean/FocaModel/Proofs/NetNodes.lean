/-
  Every node of a reachable cluster is in a state reachable by public calls: whatever is proven of every reachable
  state of one instance (C06, C08, C09, C13 …) holds of every instance of every cluster, at every moment.
-/
import FocaModel.Proofs.CalmNet
namespace Foca

section
variable (E : Env)

theorem NetReach.node_reachable {n : Net} (h : NetReach E n) : ∀ s ∈ n.nodes, Reachable E s := by
  induction h with
  | init ss hss =>
    intro s hs
    obtain ⟨id, pol, cfg, _, rfl⟩ := hss s hs
    exact Reachable.init id pol cfg
  | @deliver n i s s' d b orc eff r left _ hs _ hstep ih =>
    intro x hx
    simp only [Net.after] at hx
    rcases List.mem_or_eq_of_mem_set hx with hx | hx
    · exact ih x hx
    · subst hx; exact Reachable.step _ orc eff r left (ih s (List.mem_of_getElem? hs)) hstep
  | @fire n i s s' t orc eff r left _ hs _ hstep ih =>
    intro x hx
    simp only [Net.after] at hx
    rcases List.mem_or_eq_of_mem_set hx with hx | hx
    · exact ih x hx
    · subst hx; exact Reachable.step _ orc eff r left (ih s (List.mem_of_getElem? hs)) hstep
  | @api n i s s' op orc eff r left _ hs _ _ _ hstep ih =>
    intro x hx
    simp only [Net.after] at hx
    rcases List.mem_or_eq_of_mem_set hx with hx | hx
    · exact ih x hx
    · subst hx; exact Reachable.step _ orc eff r left (ih s (List.mem_of_getElem? hs)) hstep

/-- a cluster reached without a failed probe round is in particular a reachable cluster -/
theorem CalmReach.netReach {ids : List Id} {n : Net} (h : CalmReach E ids n) : NetReach E n := by
  induction h with
  | init ss hss =>
    exact NetReach.init ss (fun s hs => by
      obtain ⟨id, pol, cfg, hw, _, rfl⟩ := hss s hs
      exact ⟨id, pol, cfg, hw, rfl⟩)
  | deliver i s s' d b orc eff r left _ hs hw hstep ih => exact NetReach.deliver i s s' d b orc eff r left ih hs hw hstep
  | fire i s s' t orc eff r left _ hs hw _ hstep ih => exact NetReach.fire i s s' t orc eff r left ih hs hw hstep
  | api i s s' op orc eff r left _ hs hapi hann hstep ih =>
    refine NetReach.api i s s' op orc eff r left ih hs ?_ ?_ hann hstep
    · cases op <;> simp [Op.isCalmApi] at hapi <;> rfl
    · intro j p hop; subst hop; simp [Op.isCalmApi] at hapi

end
end Foca
