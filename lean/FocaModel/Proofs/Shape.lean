/-
  The shape of every datagram `send_message` emits, from a state whose member records and pending updates are
  within the wire range and whose custom items are non-empty: header, then (for the kinds that piggyback, when
  there is room) a 16-bit count and that many encoded members, then length-prefixed non-empty items.
-/
import FocaModel.Proofs.WireInv
import FocaModel.Proofs.NoPanic
import FocaModel.Props.C07H
namespace Foca
open Foca.C07 Foca.C07H

/-! ### what a fill writes -/

theorem fillStep_written {κ} {ov : Nat} {r r' : FillResult κ} {d : Bytes} (D : Bytes → Prop)
    (h : fillStep ov r d = some r') (hp : ∀ e ∈ r.pending, D e.data) (hw : ∀ x ∈ r.written, D x) :
    (∀ e ∈ r'.pending, D e.data) ∧ (∀ x ∈ r'.written, D x) := by
  obtain ⟨e0, hd, hperm, _, _, _, _, hwr, _, _⟩ := fillStep_spec h
  refine ⟨fun e he => hp e (hperm.mem_iff.1 (List.mem_cons_of_mem _ he)), ?_⟩
  intro x hx
  rw [hwr, List.mem_append] at hx
  rcases hx with hx | hx
  · exact hw x hx
  · simp only [List.mem_singleton] at hx
    rw [hx, ← hd]
    exact hp e0 (hperm.mem_iff.1 (by simp))

theorem fillSteps_written {κ} {ov : Nat} {r r' : FillResult κ} {ds : List Bytes} (D : Bytes → Prop)
    (h : fillSteps ov r ds = some r') (hp : ∀ e ∈ r.pending, D e.data) (hw : ∀ x ∈ r.written, D x) :
    ∀ x ∈ r'.written, D x := by
  induction ds generalizing r with
  | nil => simp [fillSteps] at h; subst h; exact hw
  | cons d ds ih =>
    unfold fillSteps at h
    cases hs : fillStep ov r d with
    | none => rw [hs] at h; simp at h
    | some r1 =>
      rw [hs] at h
      obtain ⟨h1, h2⟩ := fillStep_written D hs hp hw
      exact ih h h1 h2

/-- everything a fill writes is the blob of an entry of the backlog -/
theorem fill_written {κ} {b : List (Entry κ)} {space mi ov : Nat} {picks : List Bytes} {r : FillResult κ}
    (D : Bytes → Prop) (h : fill b space mi ov picks = some r) (hq : ∀ e ∈ b, D e.data) : ∀ x ∈ r.written, D x := by
  unfold fill at h
  cases hs : fillSteps ov ⟨b, [], [], space, mi⟩ picks with
  | none => rw [hs] at h; simp at h
  | some r1 =>
    rw [hs] at h
    simp only at h
    by_cases hf : fillFinal ov r1 = true
    · simp only [hf, if_true, Option.some.injEq] at h
      subst h
      exact fillSteps_written D hs (by simpa using hq) (by simp)
    · simp [hf] at h

theorem framedLen_mem {ov : Nat} {ws : List Bytes} {d : Bytes} (h : d ∈ ws) : d.length + ov ≤ framedLen ov ws := by
  induction ws with
  | nil => simp at h
  | cons w rest ih =>
    simp only [framedLen, List.map_cons, List.sum_cons]
    rcases List.mem_cons.1 h with h | h
    · subst h; omega
    · have := ih h
      simp only [framedLen] at this
      omega

/-! ### the Feed loop -/

theorem feedLoop_shape (E : Env) (l : List Member) (rem : Nat) :
    ∃ pre : List Member, (∀ m ∈ pre, m ∈ l) ∧ (feedLoop E l rem).1 = (pre.map E.codec.encMember).flatten ∧
      (feedLoop E l rem).2.1 = pre.length ∧
      ((pre.map E.codec.encMember).flatten).length + (feedLoop E l rem).2.2 ≤ rem := by
  induction l generalizing rem with
  | nil => exact ⟨[], by simp, by simp [feedLoop], by simp [feedLoop], by simp [feedLoop]⟩
  | cons m rest ih =>
    unfold feedLoop
    by_cases hfit : (E.codec.encMember m).length ≤ rem
    · simp only [hfit, if_true]
      obtain ⟨pre, h1, h2, h3, h4⟩ := ih (rem - (E.codec.encMember m).length)
      refine ⟨m :: pre, ?_, ?_, ?_, ?_⟩
      · intro x hx
        rcases List.mem_cons.1 hx with hx | hx
        · subst hx; simp
        · exact List.mem_cons_of_mem _ (h1 x hx)
      · simp only [List.map_cons, List.flatten_cons, h2]
      · simp only [List.length_cons, h3]
      · simp only [List.map_cons, List.flatten_cons, List.length_append]; omega
    · simp only [hfit, if_false]
      exact ⟨[], by simp, by simp, by simp, by simp⟩

theorem decode_list (E : Env) (Q : Member → Prop) (l : List Bytes) (h : ∀ d ∈ l, ∃ u : Member, d = E.codec.encMember u ∧ Q u) :
    ∃ us : List Member, (∀ u ∈ us, Q u) ∧ us.map E.codec.encMember = l := by
  induction l with
  | nil => exact ⟨[], by simp, rfl⟩
  | cons d ds ih =>
    obtain ⟨u, hu1, hu2⟩ := h d (by simp)
    obtain ⟨us, hus1, hus2⟩ := ih (fun x hx => h x (by simp [hx]))
    refine ⟨u :: us, ?_, by simp [hus2, hu1]⟩
    intro x hx
    rcases List.mem_cons.1 hx with hx | hx
    · subst hx; exact hu2
    · exact hus1 x hx

/-- a codec that reads back what it wrote never encodes a member into nothing -/
theorem encMember_nonempty {c : Codec} (hl : CodecLaws c) (m : Member) (hm : Member.Wire m) : 1 ≤ (c.encMember m).length := by
  cases he : c.encMember m with
  | cons x xs => simp
  | nil =>
    exfalso
    -- decoding anything would yield `m`; pick another member
    let m' : Member := ⟨m.id, m.inc, if m.st = .alive then .down else .alive⟩
    have hm' : Member.Wire m' := hm
    have h1 := hl.member_rt m (c.encMember m') hm
    rw [he, List.nil_append] at h1
    have h2 := hl.member_rt m' [] hm'
    rw [List.append_nil] at h2
    rw [h1] at h2
    simp only [Option.some.injEq, Prod.mk.injEq] at h2
    have : m.st = m'.st := by rw [h2.1]
    simp only [m'] at this
    split at this <;> simp_all

theorem flatten_length_ge {l : List Bytes} (h : ∀ b ∈ l, 1 ≤ b.length) : l.length ≤ l.flatten.length := by
  induction l with
  | nil => simp
  | cons b rest ih =>
    have h1 := h b (by simp)
    have h2 := ih (fun x hx => h x (by simp [hx]))
    simp only [List.length_cons, List.flatten_cons, List.length_append]
    omega

theorem mwire_iff (m : Member) : MWire m ↔ Member.Wire m := by
  unfold MWire IdWire Member.Wire
  constructor
  · intro h; exact ⟨h.1.1, h.1.2, h.2⟩
  · intro h; exact ⟨⟨h.1, h.2.1⟩, h.2.2⟩

/-! ### the member section and the custom tail -/

section
variable (E : Env) (Q : Member → Prop)

/-- what is needed of the state: records and pending updates satisfy `Q` (say: within the wire range, at
    incarnations the instance was told), custom items non-empty -/
def SendReady (s : State) : Prop :=
  (∀ m ∈ s.ms, Q m) ∧ (∀ e ∈ s.updates, ∃ u : Member, e.data = E.codec.encMember u ∧ Q u) ∧
  (∀ e ∈ s.custom, 1 ≤ e.data.length)

/-- outcome of `memberSection` -/
def SectionShape (msg : Msg) (rem0 : Nat) (c : Ctx) (r : R (Bytes × Nat)) : Prop :=
  match r with
  | .ok sect c' => c'.s.custom = c.s.custom ∧ c'.s.hst = c.s.hst ∧ c'.eff = c.eff ∧ sect.2 ≤ rem0 ∧
      ((sect.1 = [] ∧ sect.2 = rem0 ∧ ¬ (Gen.needsPiggyback msg = true ∧ rem0 > Gen.piggybackMinSpace)) ∨
       (Gen.needsPiggyback msg = true ∧ rem0 > Gen.piggybackMinSpace ∧
          ∃ us : List Member, (∀ u ∈ us, Q u) ∧ sect.1 = sectionBytes E us ∧
            sect.1.length + sect.2 ≤ rem0))
  | .err _ _ => True
  | .stuck _ => True

theorem memberSection_shape (dst : Id) (msg : Msg) (pick : Pick) (rem0 : Nat) (c : Ctx)
    (hs : SendReady E Q c.s) (hrem : rem0 ≤ c.s.cfg.mps) :
    SectionShape E Q msg rem0 c (memberSection E dst msg pick rem0 c) := by
  obtain ⟨hms, hupd, _⟩ := hs
  unfold memberSection SectionShape
  simp only [bind_run, getS_run]
  by_cases h1 : (Gen.needsPiggyback msg && decide (rem0 > Gen.piggybackMinSpace)) = true
  · have h1' : Gen.needsPiggyback msg = true ∧ rem0 > Gen.piggybackMinSpace := by simpa using h1
    simp only [h1, if_true]
    by_cases h2 : Gen.piggybackOnlyActive msg = true
    · simp only [h2, if_true]
      by_cases h3 : ((c.s.cfg.mps - (rem0 - 2)) / 2 == 0) = true
      · simp [h3, panicAt]
      · simp only [h3, Bool.false_eq_true, if_false, bind_run]
        have hc := chooseLoop_spec (max ((rem0 - 2) / ((c.s.cfg.mps - (rem0 - 2)) / 2)) Gen.feedMinEstimate)
          (fun m => m.active && m.id != dst) c.s.ms [] 0 c
        generalize chooseLoop (max ((rem0 - 2) / ((c.s.cfg.mps - (rem0 - 2)) / 2)) Gen.feedMinEstimate)
          (fun m => m.active && m.id != dst) c.s.ms [] 0 c = res at hc ⊢
        cases res with
        | err e c' => trivial
        | stuck x => trivial
        | ok r c' =>
          obtain ⟨hst, heff, hmem, _⟩ := hc
          simp only []
          by_cases h4 : (E.debug && decide ((feedLoop E r.reverse (rem0 - 2)).2.1 > 65535)) = true
          · simp [h4, panicAt]
          · simp only [h4, Bool.false_eq_true, if_false, pure_run]
            obtain ⟨pre, hp1, hp2, hp3, hp4⟩ := feedLoop_shape E r.reverse (rem0 - 2)
            have hpw : ∀ u ∈ pre, Q u := by
              intro u hu
              have := hp1 u hu
              rw [List.mem_reverse] at this
              rcases hmem u this with hx | hx
              · simp at hx
              · exact hms u hx.1
            have hgt : rem0 > 2 := h1'.2
            refine ⟨by rw [hst], by rw [hst], heff, by omega, Or.inr ⟨h1'.1, h1'.2, pre, hpw, ?_, ?_⟩⟩
            · simp only [sectionBytes]; rw [hp2, hp3]
            · simp only [List.length_append, u16be_len]; rw [hp2]; omega
    · simp only [h2, Bool.false_eq_true, if_false]
      cases hf : fill c.s.updates (rem0 - 2) Gen.fillMaxItems 0 pick.updates with
      | none => simp [badOracle]
      | some r =>
        simp only []
        by_cases h5 : r.written.length > 65535
        · simp [h5, panicAt]
        · simp only [h5, if_false, bind_run, modS_run, pure_run]
          have hgt : rem0 > 2 := h1'.2
          obtain ⟨hw1, hw2, _⟩ := fill_space hf
          -- every written blob is the encoding of a wire-range member
          have hD := fill_written (fun d => ∃ u : Member, d = E.codec.encMember u ∧ Q u) hf hupd
          have hus := decode_list E Q r.written hD
          obtain ⟨us, hus1, hus2⟩ := hus
          have hlen : us.length = r.written.length := by rw [← hus2]; simp
          refine ⟨by simp, by simp, by simp, by omega, Or.inr ⟨h1'.1, h1'.2, us, hus1, ?_, ?_⟩⟩
          · simp only [sectionBytes]; rw [hus2, hlen]
          · simp only [List.length_append, u16be_len]
            have : r.written.flatten.length = framedLen 0 r.written := flatten_len r.written
            rw [this, hw1]
            omega
  · have h1' : ¬ (Gen.needsPiggyback msg = true ∧ rem0 > Gen.piggybackMinSpace) := by simpa using h1
    simp only [h1, Bool.false_eq_true, if_false, pure_run]
    exact ⟨by simp, by simp, by simp, Nat.le_refl _, Or.inl ⟨by simp, by simp, h1'⟩⟩

/-- outcome of `customTail` -/
def TailShape (dst : Id) (msg : Msg) (space : Nat) (c : Ctx) (r : R Bytes) : Prop :=
  match r with
  | .ok tail c' => c'.eff = c.eff ∧ ∃ items : List Bytes, tail = tailBytes items ∧
      (∀ d ∈ items, 1 ≤ d.length ∧ d.length + 2 ≤ space) ∧ (Gen.allowCustom msg = false → items = []) ∧
      tail.length ≤ space
  | .err _ _ => True
  | .stuck _ => True

theorem customTail_shape (dst : Id) (msg : Msg) (pick : Pick) (space : Nat) (c : Ctx)
    (hcust : ∀ e ∈ c.s.custom, 1 ≤ e.data.length) :
    TailShape dst msg space c (customTail E dst msg pick space c) := by
  unfold customTail TailShape
  simp only [bind_run, getS_run]
  by_cases h1 : (decide (space > 0) && Gen.allowCustom msg && E.handler.shouldAdd c.s.hst dst) = true
  · simp only [h1, if_true]
    have hallow : Gen.allowCustom msg = true := by
      simp only [Bool.and_eq_true] at h1; exact h1.1.2
    cases hf : fill c.s.custom space usizeMax Gen.lenPrefix pick.custom with
    | none => simp [badOracle]
    | some r =>
      simp only []
      by_cases h5 : (E.debug && r.written.any (fun d => decide (d.length > 65535))) = true
      · simp [h5, panicAt]
      · simp only [h5, Bool.false_eq_true, if_false, bind_run, modS_run, pure_run]
        obtain ⟨hw1, hw2, _⟩ := fill_space hf
        have hD := fill_written (fun d => 1 ≤ d.length) hf hcust
        refine ⟨by simp, r.written, rfl, ?_, (by rw [hallow]; intro h; cases h), ?_⟩
        · intro d hd
          refine ⟨hD d hd, ?_⟩
          have := framedLen_mem (ov := Gen.lenPrefix) hd
          rw [hw1] at this
          simp only [Gen.lenPrefix] at this hw2
          omega
        · have := framed_flatten_len r.written
          rw [this, hw1]
          simp only [Gen.lenPrefix] at hw2 ⊢
          omega
  · simp only [h1, Bool.false_eq_true, if_false, pure_run]
    exact ⟨by simp, [], by simp [tailBytes], by simp, fun _ => rfl, by simp⟩

/-- the shape of a datagram: header; then nothing, or (kinds that piggyback) count ++ members ++ framed items, or
    (Broadcast) framed items; members satisfying `Q`; items non-empty -/
def DatagramShape (h : Header) (bytes : Bytes) : Prop :=
  ∃ (us : List Member) (items : List Bytes), (∀ u ∈ us, Q u) ∧ (∀ d ∈ items, 1 ≤ d.length) ∧
    (bytes = E.codec.encHeader h ∨
     (h.msg ≠ .broadcast ∧ h.msg ≠ .announce ∧ bytes = E.codec.encHeader h ++ (sectionBytes E us ++ tailBytes items)) ∨
     (h.msg = .broadcast ∧ bytes = E.codec.encHeader h ++ tailBytes items))

/-- outcome of `send_message` -/
def SentShape (dst : Id) (msg : Msg) (c : Ctx) (r : R Unit) : Prop :=
  match r with
  | .ok _ c' => ∃ bytes, c'.eff = c.eff ++ [.send dst bytes] ∧ bytes.length ≤ c.s.cfg.mps ∧
      DatagramShape E Q ⟨c.s.id, c.s.inc, dst, msg⟩ bytes
  | .err _ _ => True
  | .stuck _ => True

theorem needsPiggyback_kinds {msg : Msg} (h : Gen.needsPiggyback msg = true) : msg ≠ .broadcast ∧ msg ≠ .announce := by
  cases msg <;> simp [Gen.needsPiggyback] at h <;> simp

theorem not_piggyback_kinds {msg : Msg} (h : ¬ Gen.needsPiggyback msg = true) :
    Gen.allowCustom msg = false ∨ msg = .broadcast := by
  cases msg <;> simp [Gen.needsPiggyback, Gen.allowCustom] at h ⊢

/-- **Every datagram `send_message` emits has the documented shape.** -/
theorem sendMessage_shape (dst : Id) (msg : Msg) (c : Ctx) (hs : SendReady E Q c.s) :
    SentShape E Q dst msg c (sendMessage E dst msg c) := by
  unfold sendMessage SentShape
  simp only [bind_run, getS_run]
  by_cases h0 : (E.debug && c.s.sendCap != c.s.cfg.mps) = true
  · simp [h0, panicAt]
  · simp only [h0, Bool.false_eq_true, if_false]
    by_cases h1 : (E.codec.encHeader ⟨c.s.id, c.s.inc, dst, msg⟩).length > c.s.cfg.mps
    · simp [h1, throwE]
    · simp only [h1, if_false, bind_run]
      have hp := nextPick_spec c
      generalize nextPick c = rp at hp ⊢
      cases rp with
      | err e c1 => trivial
      | stuck x => trivial
      | ok pick c1 =>
        obtain ⟨hs1, he1⟩ := hp
        simp only []
        have hready : SendReady E Q c1.s := by rw [hs1]; exact hs
        have hm := memberSection_shape E Q dst msg pick (c.s.cfg.mps - (E.codec.encHeader ⟨c.s.id, c.s.inc, dst, msg⟩).length) c1
          hready (by rw [hs1]; omega)
        generalize memberSection E dst msg pick (c.s.cfg.mps - (E.codec.encHeader ⟨c.s.id, c.s.inc, dst, msg⟩).length) c1 = rm at hm ⊢
        cases rm with
        | err e c2 => trivial
        | stuck x => trivial
        | ok sect c2 =>
          simp only [SectionShape] at hm
          obtain ⟨hcu, _, he2, hsp, hsect⟩ := hm
          simp only []
          have ht := customTail_shape E dst msg pick sect.2 c2 (by rw [hcu, hs1]; exact hs.2.2)
          generalize customTail E dst msg pick sect.2 c2 = rt at ht ⊢
          cases rt with
          | err e c3 => trivial
          | stuck x => trivial
          | ok tail c3 =>
            simp only [TailShape] at ht
            obtain ⟨he3, items, htail, hitems, hallow, htl⟩ := ht
            simp only [emit_run]
            refine ⟨_, by rw [he3, he2, he1], ?_, ?_⟩
            · -- size
              simp only [List.length_append]
              rcases hsect with ⟨h1', h2', _⟩ | ⟨_, _, us, _, _, hlen⟩
              · rw [h1']; simp only [List.length_nil]; omega
              · omega
            · have hitems' : ∀ d ∈ items, 1 ≤ d.length := fun d hd => (hitems d hd).1
              rcases hsect with ⟨h1', h2', hno⟩ | ⟨hnp, hgt, us, hus, hsb, _⟩
              · -- no member section
                by_cases hnp : Gen.needsPiggyback msg = true
                · -- no room: nothing fits after the header
                  have hsmall : sect.2 ≤ 2 := by
                    have : ¬ (c.s.cfg.mps - (E.codec.encHeader ⟨c.s.id, c.s.inc, dst, msg⟩).length > Gen.piggybackMinSpace) :=
                      fun hh => hno ⟨hnp, hh⟩
                    simp only [Gen.piggybackMinSpace] at this
                    omega
                  have hnil : items = [] := by
                    apply List.eq_nil_iff_forall_not_mem.2
                    intro d hd
                    have := hitems d hd
                    omega
                  refine ⟨[], [], by simp, by simp, Or.inl ?_⟩
                  rw [h1', htail, hnil]; simp [tailBytes]
                · rcases not_piggyback_kinds hnp with hna | hb
                  · have hnil := hallow hna
                    refine ⟨[], [], by simp, by simp, Or.inl ?_⟩
                    rw [h1', htail, hnil]; simp [tailBytes]
                  · refine ⟨[], items, by simp, hitems', Or.inr (Or.inr ⟨hb, ?_⟩)⟩
                    rw [h1', htail]; simp
              · have hk := needsPiggyback_kinds hnp
                refine ⟨us, items, hus, hitems', Or.inr (Or.inl ⟨hk.1, hk.2, ?_⟩)⟩
                rw [hsb, htail, List.append_assoc]

end
end Foca
