/-
  The probe stage across calls: what can happen, in one public call, to the probe's target, to "the indirect stage
  was reached", to the timer token and to the connection state — the facts behind "timers delivered in deadline
  order never find the probe cycle incomplete" (C13).
-/
import FocaModel.Proofs.ComposeC
import FocaModel.Proofs.Frames
import FocaModel.Proofs.Units
import FocaModel.Proofs.SendInv
import FocaModel.Proofs.Timers
namespace Foca

/-! ### the core the membership primitives, the report units and sending leave alone -/

/-- epoch, token, connection state, configuration and probe are exactly these -/
def CoreIs (e t : Nat) (cn : Conn) (cf : Config) (p : Probe) (s : State) (_ : List Effect) : Prop :=
  s.epoch = e ∧ s.token = t ∧ s.conn = cn ∧ s.cfg = cf ∧ s.probe = p

section
variable {e t : Nat} {cn : Conn} {cf : Config} {p : Probe}

theorem CoreIs.of_memOnly {α} {m : M α} (h : ∀ c, MemOnly c (m c)) : PresC (CoreIs e t cn cf p) m :=
  ⟨fun c hc => by
    have := h c
    unfold MemOnly at this
    cases hm : m c with
    | stuck x => trivial
    | err k c' => rw [hm] at this; simp only at this ⊢; unfold CoreIs at *; rw [this]; exact hc
    | ok a c' =>
      rw [hm] at this
      simp only at this ⊢
      unfold OnlyMembership at this
      unfold CoreIs at *
      rw [this]
      exact hc⟩

theorem CoreIs.modS_of {f : State → State}
    (h : ∀ s, (f s).epoch = s.epoch ∧ (f s).token = s.token ∧ (f s).conn = s.conn ∧ (f s).cfg = s.cfg ∧ (f s).probe = s.probe) :
    PresC (CoreIs e t cn cf p) (Foca.modS f) :=
  ⟨fun c hc => by
    simp only [modS_run]
    unfold CoreIs at *
    obtain ⟨h1, h2, h3, h4, h5⟩ := h c.s
    rw [h1, h2, h3, h4, h5]
    exact hc⟩

theorem CoreIs.emit (x : Effect) : PresC (CoreIs e t cn cf p) (Foca.emit x) := ⟨fun _ hc => hc⟩

theorem CoreIs.sendMessage (E : Env) (d : Id) (m : Msg) : PresC (CoreIs e t cn cf p) (Foca.sendMessage E d m) :=
  ⟨fun c hc => by
    have := sendMessage_spec E d m c
    cases h : Foca.sendMessage E d m c with
    | stuck x => trivial
    | err k c' => rw [h] at this; simp only [SendOK] at this ⊢; unfold CoreIs at *; rw [this.2.1]; exact hc
    | ok a c' =>
      rw [h] at this
      simp only [SendOK] at this ⊢
      have hb := this.1
      unfold OnlyBacklogs at hb
      unfold CoreIs at *
      rw [hb]
      exact hc⟩

theorem CoreIs.handleApplySummary (E : Env) (sm : Summary) (u : Member) (b : Bool) :
    PresC (CoreIs e t cn cf p) (Foca.handleApplySummary E sm u b) := by
  unfold Foca.handleApplySummary Foca.addUpdate
  presc
  all_goals first
    | exact CoreIs.emit _
    | exact CoreIs.modS_of (fun _ => ⟨rfl, rfl, rfl, rfl, rfl⟩)

theorem CoreIs.applyUpdate (E : Env) (u : Member) (b : Bool) : PresC (CoreIs e t cn cf p) (Foca.applyUpdate E u b) := by
  unfold Foca.applyUpdate
  presc
  · exact CoreIs.of_memOnly (membersApply_only u)
  · exact CoreIs.handleApplySummary E _ _ _

theorem CoreIs.applyExistingReport (E : Env) (u : Member) (cond : Member → Bool) :
    PresC (CoreIs e t cn cf p) (Foca.applyExistingReport E u cond) := by
  unfold Foca.applyExistingReport
  presc
  · exact CoreIs.of_memOnly (membersApplyExistingIf_only u cond)
  · exact CoreIs.handleApplySummary E _ _ _

end

/-- an invariant that looks at nothing but epoch, token, connection state, configuration and probe is kept by
    whatever keeps those -/
theorem PresC.of_core {α} {Q : State → Prop} {m : M α}
    (hQ : ∀ s s', s'.epoch = s.epoch → s'.token = s.token → s'.conn = s.conn → s'.cfg = s.cfg → s'.probe = s.probe → Q s → Q s')
    (hm : ∀ e t cn cf p, PresC (CoreIs e t cn cf p) m) : PresC (fun s _ => Q s) m :=
  ⟨fun c hc => by
    have := (hm c.s.epoch c.s.token c.s.conn c.s.cfg c.s.probe).run c ⟨rfl, rfl, rfl, rfl, rfl⟩
    cases h : m c with
    | stuck x => trivial
    | err k c' => rw [h] at this; exact hQ c.s c'.s this.1 this.2.1 this.2.2.1 this.2.2.2.1 this.2.2.2.2 hc
    | ok a c' => rw [h] at this; exact hQ c.s c'.s this.1 this.2.1 this.2.2.1 this.2.2.2.1 this.2.2.2.2 hc⟩

/-- the state after a run satisfies `Q` -/
def PostS {α} (Q : State → Prop) (r : R α) : Prop :=
  match r with
  | .ok _ c' => Q c'.s
  | .err _ c' => Q c'.s
  | .stuck _ => True

theorem PresC.postS {α} {Q : State → Prop} {m : M α} (h : PresC (fun s _ => Q s) m) (c : Ctx) (hc : Q c.s) :
    PostS Q (m c) := by
  have := h.run c hc
  unfold PostS
  cases hm : m c with
  | stuck x => trivial
  | err k c' => rw [hm] at this; exact this
  | ok a c' => rw [hm] at this; exact this

/-- leaves of an invariant over epoch, token, connection state, configuration and probe, from the few writes it
    can see -/
theorem LeavesP.of_core (E : Env) {Q : State → Prop}
    (hQ : ∀ s s', s'.epoch = s.epoch → s'.token = s.token → s'.conn = s.conn → s'.cfg = s.cfg → s'.probe = s.probe → Q s → Q s')
    (probeMono : ∀ g : Probe → Probe, ProbeMono g → ∀ s, Q s → Q { s with probe := g s.probe })
    (reset : ∀ s, Q s → Q { s with conn := .disconnected, inc := 0, token := wrapAdd8 s.token, probe := s.probe.clear, epoch := s.epoch + 1 })
    (disconnect : ∀ s, Q s → Q { s with conn := .disconnected, token := wrapAdd8 s.token, probe := s.probe.clear, epoch := s.epoch + 1 })
    (undead : ∀ s, Q s → Q { s with conn := .undead, probe := s.probe.clear, token := wrapAdd8 s.token, epoch := s.epoch + 1 })
    (connect : ∀ s, s.conn = .disconnected → Q s → Q { s with conn := .connected })
    (setCfg : ∀ s cfg sc, Q s → Q { s with cfg := cfg, sendCap := sc }) :
    LeavesP E (fun s _ => Q s) (fun _ => false) where
  plain := fun _ _ _ => rfl
  keep := fun f h => ⟨fun c hc => by
    simp only [modS_run]
    exact hQ c.s _ (h c.s).2.2.2.1 (h c.s).2.2.1 (h c.s).2.1 (h c.s).2.2.2.2.1 (h c.s).2.2.2.2.2 hc⟩
  probeMono := fun g hg => ⟨fun c hc => by simp only [modS_run]; exact probeMono g hg c.s hc⟩
  emitOther := fun _ _ => ⟨fun _ hc => hc⟩
  removeDown := fun _ => ⟨fun c hc => by simp only [modS_run]; exact hQ c.s _ rfl rfl rfl rfl rfl hc⟩
  membersNext := PresC.of_core hQ (fun _ _ _ _ _ => CoreIs.of_memOnly membersNext_only)
  sendMessage := fun d m => PresC.of_core hQ (fun _ _ _ _ _ => CoreIs.sendMessage E d m)
  applyUpdate := fun u b => PresC.of_core hQ (fun _ _ _ _ _ => CoreIs.applyUpdate E u b)
  applyExistingReport := fun u cond => PresC.of_core hQ (fun _ _ _ _ _ => CoreIs.applyExistingReport E u cond)
  reset := by
    unfold Foca.reset
    exact ⟨fun c hc => by simp only [modS_run]; exact reset c.s hc⟩
  becomeUndead := by
    unfold Foca.becomeUndead
    refine PresC.bind ⟨fun c hc => by simp only [modS_run]; exact undead c.s hc⟩ (fun _ => ⟨fun _ hc => hc⟩)
  adjustConnectionState := by
    unfold Foca.adjustConnectionState
    refine PresC.getS_at (fun s0 eff0 h0 => ?_)
    cases hcn : s0.conn with
    | undead => exact PresCAt.of_presC h0 (PresC.pure _)
    | disconnected =>
      simp only []
      refine PresCAt.ite (fun _ => ?_) (fun _ => PresCAt.of_presC h0 (PresC.pure _))
      unfold Foca.becomeConnected
      refine PresCAt.getS_bind ?_
      refine PresCAt.ite (fun _ => PresCAt.panicAt _) (fun _ => ?_)
      refine PresCAt.modS_bind (PresCAt.of_presC (connect s0 hcn h0) ?_)
      presc
      all_goals exact ⟨fun _ hc => hc⟩
    | connected =>
      simp only []
      refine PresCAt.ite (fun _ => ?_) (fun _ => PresCAt.of_presC h0 (PresC.pure _))
      unfold Foca.becomeDisconnected
      refine PresCAt.of_presC h0 ?_
      presc
      · exact ⟨fun c hc => by simp only [modS_run]; exact disconnect c.s hc⟩
      · exact ⟨fun _ hc => hc⟩
  setConfig := fun cfg => by
    unfold Foca.setConfig
    presc
    exact ⟨fun c hc => by simp only [modS_run]; exact setCfg c.s _ _ hc⟩

/-! ### what one call can do to the probe stage -/

/-- since `s0`: epochs only grow; within the epoch of `s0` the token is the same and a connected instance stays
    connected; the probe has no target, or — still in the epoch of `s0` — the target it had in `s0`, and an
    indirect stage reached in `s0` is still reached -/
def StageSince (s0 s : State) : Prop :=
  s0.epoch ≤ s.epoch ∧
  (s.epoch = s0.epoch → s.token = s0.token ∧ (s0.conn = .connected → s.conn = .connected)) ∧
  (s.probe.direct = none ∨
    (s.epoch = s0.epoch ∧ s.probe.direct = s0.probe.direct ∧ (s0.probe.reached = true → s.probe.reached = true)))

theorem StageSince.refl (s : State) : StageSince s s :=
  ⟨Nat.le_refl _, fun _ => ⟨rfl, id⟩, Or.inr ⟨rfl, rfl, id⟩⟩

theorem StageSince.leaves (E : Env) (s0 : State) : LeavesP E (fun s _ => StageSince s0 s) (fun _ => false) := by
  refine LeavesP.of_core E ?_ ?_ ?_ ?_ ?_ ?_ ?_
  · intro s s' h1 h2 h3 _ h5 h
    unfold StageSince at *
    rw [h1, h2, h3, h5]
    exact h
  · intro g hg s h
    obtain ⟨h1, h2, h3⟩ := h
    refine ⟨h1, h2, ?_⟩
    simp only
    rcases hg s.probe with hn | ⟨hd, hr⟩
    · exact Or.inl hn
    · rcases h3 with h3 | ⟨h3a, h3b, h3c⟩
      · left; rw [hd]; exact h3
      · right; exact ⟨h3a, by rw [hd]; exact h3b, fun h0 => hr (h3c h0)⟩
  · intro s h
    exact ⟨Nat.le_succ_of_le h.1, fun he => by simp only at he; have := h.1; omega, Or.inl rfl⟩
  · intro s h
    exact ⟨Nat.le_succ_of_le h.1, fun he => by simp only at he; have := h.1; omega, Or.inl rfl⟩
  · intro s h
    exact ⟨Nat.le_succ_of_le h.1, fun he => by simp only at he; have := h.1; omega, Or.inl rfl⟩
  · intro s _ h
    exact ⟨h.1, fun he => ⟨(h.2.1 he).1, fun _ => rfl⟩, h.2.2⟩
  · intro s cfg sc h
    exact h

/-- **One call that is not the delivery of a probe timer**: afterwards the probe has no target or the very target
    it had, in the same epoch with the same token; the indirect stage, once reached, stays reached; and within
    one epoch a connected instance stays connected. -/
theorem stage_step_other (E : Env) (s : State) (op : Op) (orc : Oracle) (hop : ∀ tok, op ≠ .timer (.probe tok)) :
    match Foca.step E s op orc with
    | .done s' _ _ _ => StageSince s s'
    | .stuck _ => True := by
  have L := StageSince.leaves E s
  have hrun := (L.runOp op (fun t ht hl => by
    by_cases hp : t.loopNo = some 0
    · cases t with
      | probe tok => exact absurd ht (hop tok)
      | pa tok => simp [Timer.loopNo] at hp
      | pad tok => simp [Timer.loopNo] at hp
      | pg tok => simp [Timer.loopNo] at hp
      | indirect p tok => simp [Timer.isLoop] at hl
      | s2d m inc tok => simp [Timer.isLoop] at hl
      | rm m => simp [Timer.isLoop] at hl
    · exact L.periodicBranch t hl hp (fun _ _ _ => ⟨fun _ hc => hc⟩))).run ⟨s, [], orc⟩ (StageSince.refl s)
  unfold Foca.step
  cases hr : Foca.runOp E op ⟨s, [], orc⟩ with
  | stuck x => trivial
  | ok r c => rw [hr] at hrun; exact hrun
  | err e c => rw [hr] at hrun; exact hrun

/-! ### the indirect-probe timer marks the stage as reached -/

/-- no target, or the indirect stage was reached: the probe cycle counts as complete -/
def StageDone (s : State) : Prop := s.probe.direct = none ∨ s.probe.reached = true

theorem StageDone.leaves (E : Env) : LeavesP E (fun s _ => StageDone s) (fun _ => false) := by
  refine LeavesP.of_core E ?_ ?_ ?_ ?_ ?_ ?_ ?_
  · intro s s' _ _ _ _ h5 h
    unfold StageDone at *
    rw [h5]; exact h
  · intro g hg s h
    unfold StageDone at *
    simp only
    rcases hg s.probe with hn | ⟨hd, hr⟩
    · exact Or.inl hn
    · rcases h with h | h
      · left; rw [hd]; exact h
      · right; exact hr h
  · intro s _; exact Or.inl rfl
  · intro s _; exact Or.inl rfl
  · intro s _; exact Or.inl rfl
  · intro s _ h; exact h
  · intro s cfg sc h; exact h

/-- delivering the indirect-probe timer of the current epoch leaves the probe cycle complete, whatever else the
    handler does (and whether or not its sends succeed) -/
theorem indirect_timer_completes_stage (E : Env) (s : State) (m : Id) (orc : Oracle) :
    match Foca.step E s (.timer (.indirect m s.token)) orc with
    | .done s' _ _ _ => StageDone s'
    | .stuck _ => True := by
  have L := StageDone.leaves E
  have hpres : PresC (fun s _ => StageDone s) (do
      if !s.probe.isProbing m then pure ()
      else if s.probe.succeeded then pure ()
      else if !isActiveId s.ms m then pure ()
      else
        let chosen ← chooseLoop s.cfg.k (fun x => x.active && x.id != m) s.ms [] 0
        pingReqLoop E m (chosen.reverse.map (·.id)) : M Unit) := by
    presc
    exact L.pingReqLoop _ _
  have := hpres.postS ⟨{ s with probe := { s.probe with reached := true } }, [], orc⟩ (Or.inr rfl)
  unfold Foca.step Foca.runOp Foca.handleTimer
  simp only [bind_run, getS_run, bne_self_eq_false, Bool.false_eq_true, if_false, modS_run]
  unfold PostS at this
  revert this
  generalize (do
        if !s.probe.isProbing m then pure ()
        else if s.probe.succeeded then pure ()
        else if !isActiveId s.ms m then pure ()
        else
          let chosen ← chooseLoop s.cfg.k (fun x => x.active && x.id != m) s.ms [] 0
          pingReqLoop E m (chosen.reverse.map (·.id)) : M Unit) _ = r
  intro this
  cases r with
  | stuck x => trivial
  | ok u c => simpa using this
  | err e c => simpa using this

/-! ### the shape of a probe round -/

section
variable (E : Env)

/-- effects added since `eff0`, none of them a probe timer -/
def GrewQuietly (eff0 eff : List Effect) : Prop := ∃ mid, eff = eff0 ++ mid ∧ ∀ e ∈ mid, probeTimer e = false

theorem GrewQuietly.refl (eff : List Effect) : GrewQuietly eff eff := ⟨[], by simp, by simp⟩

theorem GrewQuietly.append {eff0 eff : List Effect} (h : GrewQuietly eff0 eff) (more : List Effect)
    (hm : ∀ e ∈ more, probeTimer e = false) : GrewQuietly eff0 (eff ++ more) := by
  obtain ⟨mid, h1, h2⟩ := h
  refine ⟨mid ++ more, by rw [h1, List.append_assoc], ?_⟩
  intro e he
  rcases List.mem_append.1 he with he | he
  · exact h2 e he
  · exact hm e he

theorem summaryEffects_noProbe (rda : Nat) (sm : Summary) (u : Member) :
    ∀ e ∈ summaryEffects rda sm u, probeTimer e = false := by
  intro e he
  unfold summaryEffects at he
  simp only [List.mem_append] at he
  rcases he with (he | he) | he
  · split at he
    · simp at he; subst he; rfl
    · simp at he
  · split at he
    · simp at he; subst he; rfl
    · simp at he
  · split at he
    · split at he <;> simp at he <;> subst he <;> rfl
    · simp at he

/-- first stage of a probe round: configuration and token stay, the probe is what `take_failed` left, the effects
    (a forget-timer, notifications, the suspicion timer) contain no probe timer; it never fails -/
def SuspectShape (c : Ctx) (r : R Unit) : Prop :=
  match r with
  | .ok _ c2 => c2.s.cfg = c.s.cfg ∧ c2.s.token = c.s.token ∧ c2.s.probe = c.s.probe.takeFailed.2 ∧
      GrewQuietly c.eff c2.eff
  | .err _ _ => False
  | .stuck _ => True

theorem probeSuspectFailed_shape (c : Ctx) : SuspectShape c (probeSuspectFailed E c) := by
  unfold probeSuspectFailed SuspectShape
  simp only [bind_run, getS_run, modS_run]
  cases htf : c.s.probe.takeFailed.1 with
  | none => simp only [pure_run]; exact ⟨trivial, trivial, trivial, GrewQuietly.refl _⟩
  | some failed =>
    simp only []
    have hcore := (CoreIs.applyExistingReport (e := c.s.epoch) (t := c.s.token) (cn := c.s.conn) (cf := c.s.cfg)
      (p := c.s.probe.takeFailed.2) E ⟨failed.id, failed.inc, .suspect⟩ (fun _ => true)).run
      { c with s := { c.s with probe := c.s.probe.takeFailed.2 } } ⟨rfl, rfl, rfl, rfl, rfl⟩
    cases happ : applyExisting c.s.ms ⟨failed.id, failed.inc, .suspect⟩ (fun _ => true) with
    | none =>
      have hrun := applyExistingReport_none E (c := { c with s := { c.s with probe := c.s.probe.takeFailed.2 } }) happ
      simp only [bind_run]
      erw [hrun]
      simp only [pure_run]
      exact ⟨trivial, trivial, trivial, GrewQuietly.refl _⟩
    | some r =>
      obtain ⟨ms', sm⟩ := r
      obtain ⟨c3, hrun, _, _, _, _, _, _, heff, _⟩ := applyExistingReport_some E
        (c := { c with s := { c.s with probe := c.s.probe.takeFailed.2 } }) happ
      erw [hrun] at hcore
      simp only [bind_run]
      erw [hrun]
      simp only []
      have hg : GrewQuietly c.eff c3.eff := by
        rw [heff]
        exact (GrewQuietly.refl c.eff).append _ (summaryEffects_noProbe _ _ _)
      cases hact : sm.activeNow with
      | false =>
        simp only [Bool.false_eq_true, if_false, pure_run]
        exact ⟨hcore.2.2.2.1, hcore.2.1, hcore.2.2.2.2, hg⟩
      | true =>
        simp only [if_true, bind_run, getS_run, emit_run]
        exact ⟨hcore.2.2.2.1, hcore.2.1, hcore.2.2.2.2, hg.append _ (by intro e he; simp at he; subst he; rfl)⟩

/-- second stage: configuration and token stay, no probe timer is scheduled; either the probe is untouched (there
    was nobody to ping) or the indirect-probe timer of this round is among the effects — with the `probe_rtt` of
    the configuration the round started with -/
def StartShape (c : Ctx) (r : R Unit) : Prop :=
  match r with
  | .ok _ c3 => c3.s.cfg = c.s.cfg ∧ c3.s.token = c.s.token ∧
      ∃ mid, c3.eff = c.eff ++ mid ∧ (∀ e ∈ mid, probeTimer e = false) ∧
        (c3.s.probe = c.s.probe ∨ ∃ m, Effect.timer c.s.cfg.probeRtt (.indirect m c.s.token) ∈ mid)
  | .err _ _ => True
  | .stuck _ => True

theorem probeStartNext_shape (c : Ctx) : StartShape c (probeStartNext E c) := by
  unfold probeStartNext StartShape
  simp only [bind_run]
  have hmem := membersNext_only c
  have hsil := Silent.membersNext c
  cases hm : membersNext c with
  | stuck x => trivial
  | err e2 cc => exact absurd hm (membersNext_no_err c e2 cc)
  | ok r cc =>
    rw [hm] at hmem hsil
    simp only [MemOnly] at hmem
    simp only at hsil
    have hcfg : cc.s.cfg = c.s.cfg := by unfold OnlyMembership at hmem; rw [hmem]
    have htok : cc.s.token = c.s.token := by unfold OnlyMembership at hmem; rw [hmem]
    have hprobe : cc.s.probe = c.s.probe := by unfold OnlyMembership at hmem; rw [hmem]
    simp only
    cases r with
    | none =>
      simp only [pure_run]
      exact ⟨hcfg, htok, [], by rw [hsil]; simp, by simp, Or.inl hprobe⟩
    | some member =>
      simp only [bind_run, modS_run, getS_run]
      have hs := sendMessage_spec E member.id (.ping ({ cc.s with probe := cc.s.probe.start member } : State).probe.number)
        { cc with s := { cc.s with probe := cc.s.probe.start member } }
      cases hsend : sendMessage E member.id (.ping ({ cc.s with probe := cc.s.probe.start member } : State).probe.number)
          { cc with s := { cc.s with probe := cc.s.probe.start member } } with
      | stuck x => trivial
      | err e3 c4 => trivial
      | ok u c4 =>
        rw [hsend] at hs
        simp only [SendOK] at hs
        obtain ⟨hb, body, heff, _⟩ := hs
        simp only [emit_run]
        have h4cfg : c4.s.cfg = c.s.cfg := by unfold OnlyBacklogs at hb; rw [hb]; exact hcfg
        have h4tok : c4.s.token = c.s.token := by unfold OnlyBacklogs at hb; rw [hb]; exact htok
        obtain ⟨sendE, hsE, heff'⟩ : ∃ x, probeTimer x = false ∧ c4.eff = c.eff ++ [x] := by
          rw [heff]
          refine ⟨?x, ?h1, ?h2⟩
          case h2 => try dsimp only
                     rw [hsil]
          case h1 => rfl
        refine ⟨h4cfg, h4tok, [sendE, .timer cc.s.cfg.probeRtt (.indirect member.id cc.s.token)], ?_, ?_,
          Or.inr ⟨member.id, ?_⟩⟩
        · rw [heff']
          simp
        · intro e he
          simp only [List.mem_cons, List.mem_nil_iff, or_false] at he
          rcases he with rfl | rfl
          · exact hsE
          · rfl
        · rw [hcfg, htok]
          simp

/-- **A probe round that started from a complete cycle.** Connection state, token, epoch and configuration stay;
    the only probe timer it schedules is the last effect, due after the `probe_period` of that configuration; and
    if the cycle is incomplete afterwards (a new target, indirect stage not reached), the indirect-probe timer of
    this round, due after `probe_rtt`, is among the effects. -/
def RoundShape (c : Ctx) (r : R Unit) : Prop :=
  match r with
  | .ok _ c' => ∃ mid, c'.eff = c.eff ++ mid ++ [.timer c.s.cfg.probePeriod (.probe c.s.token)] ∧
      (∀ e ∈ mid, probeTimer e = false) ∧
      (c'.s.probe.validate = false → ∃ m, Effect.timer c.s.cfg.probeRtt (.indirect m c.s.token) ∈ mid)
  | .err _ _ => True
  | .stuck _ => True

theorem validate_takeFailed (p : Probe) (h : p.validate = true) : p.takeFailed.2.validate = true := by
  unfold Probe.takeFailed
  split
  · simp [Probe.validate, Gen.probeValidate]
  · exact h

theorem probeRandomMember_shape (c : Ctx) (hv : c.s.probe.validate = true) : RoundShape c (probeRandomMember E c) := by
  unfold Foca.probeRandomMember RoundShape
  rw [bind_run, getS_run]
  simp only []
  by_cases hdbg : (E.debug && c.s.conn != .connected) = true
  · simp only [hdbg, if_true, panicAt_run]
  · simp only [hdbg, Bool.false_eq_true, if_false, hv, Bool.not_true]
    have h2 := probeSuspectFailed_shape E c
    simp only [bind_run, getS_run, emit_run, pure_run]
    cases hr2 : probeSuspectFailed E c with
    | stuck x => trivial
    | err e2 c2 => rw [hr2] at h2; exact h2.elim
    | ok u2 c2 =>
      rw [hr2] at h2
      simp only [SuspectShape] at h2
      obtain ⟨q1, q2, q3, mid1, hm1, hq1⟩ := h2
      simp only []
      have h3 := probeStartNext_shape E c2
      cases hr3 : probeStartNext E c2 with
      | stuck x => trivial
      | err e3 c3 => trivial
      | ok u3 c3 =>
        rw [hr3] at h3
        simp only [StartShape] at h3
        obtain ⟨r1, r2, mid2, hm2, hq2, r4⟩ := h3
        simp only []
        refine ⟨mid1 ++ mid2, ?_, ?_, ?_⟩
        · rw [hm2, hm1, r1, q1, r2, q2]
          simp [List.append_assoc]
        · intro e he
          rcases List.mem_append.1 he with he | he
          · exact hq1 e he
          · exact hq2 e he
        · intro hval
          rcases r4 with r4 | ⟨m, hm⟩
          · rw [r4, q3, validate_takeFailed _ hv] at hval
            cases hval
          · refine ⟨m, ?_⟩
            rw [q1, q2] at hm
            exact List.mem_append.2 (Or.inr hm)

end

end Foca
