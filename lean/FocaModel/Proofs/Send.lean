/-
  `send_message`: exactly one `send` effect to the requested destination, bounded by
  max_packet_size, starting with the header of the current identity; only the two backlogs change.
-/
import FocaModel.Proofs.Choose
import FocaModel.Proofs.Fill
namespace Foca

/-- `s'` differs from `s` at most in the two dissemination backlogs -/
def OnlyBacklogs (s s' : State) : Prop := s' = { s with updates := s'.updates, custom := s'.custom }

theorem OnlyBacklogs.refl (s : State) : OnlyBacklogs s s := by cases s; rfl

theorem OnlyBacklogs.trans {a b c : State} (h1 : OnlyBacklogs a b) (h2 : OnlyBacklogs b c) : OnlyBacklogs a c := by
  unfold OnlyBacklogs at *
  rw [h2, h1]

theorem feedLoop_len (E : Env) (l : List Member) (rem : Nat) :
    (feedLoop E l rem).1.length + (feedLoop E l rem).2.2 ≤ rem := by
  induction l generalizing rem with
  | nil => simp [feedLoop]
  | cons m rest ih =>
    unfold feedLoop
    by_cases h : (E.codec.encMember m).length ≤ rem
    · simp only [h, if_true, List.length_append]
      have := ih (rem - (E.codec.encMember m).length)
      omega
    · simp only [h, if_false, List.length_nil]
      omega

theorem u16be_len (n : Nat) : (u16be n).length = 2 := rfl

theorem flatten_len (ws : List Bytes) : ws.flatten.length = framedLen 0 ws := by
  induction ws with
  | nil => rfl
  | cons w ws ih => simp [framedLen] at * <;> omega

theorem framed_flatten_len (ws : List Bytes) :
    (ws.map (frame Gen.lenPrefix)).flatten.length = framedLen Gen.lenPrefix ws := by
  induction ws with
  | nil => rfl
  | cons w ws ih =>
    simp [framedLen, frame, Gen.lenPrefix, u16be] at *
    omega

section
variable (E : Env)

def SectionOK (rem0 : Nat) (c : Ctx) (res : R (Bytes × Nat)) : Prop :=
  match res with
  | .ok r c' => OnlyBacklogs c.s c'.s ∧ c'.eff = c.eff ∧ r.1.length + r.2 ≤ rem0
  | .err _ _ => False
  | .stuck _ => True

theorem memberSection_spec (dst : Id) (msg : Msg) (pick : Pick) (rem0 : Nat) (c : Ctx) :
    SectionOK rem0 c (memberSection E dst msg pick rem0 c) := by
  unfold memberSection
  simp only [bind_run, getS_run]
  by_cases h1 : (Gen.needsPiggyback msg && decide (rem0 > Gen.piggybackMinSpace)) = true
  · simp only [h1, if_true]
    have hrem : rem0 > 2 := by
      simp [Gen.piggybackMinSpace] at h1; exact h1.2
    by_cases h2 : Gen.piggybackOnlyActive msg = true
    · simp only [h2, if_true]
      by_cases h3 : ((c.s.cfg.mps - (rem0 - 2)) / 2 == 0) = true
      · simp [h3, SectionOK]
      · simp only [h3, Bool.false_eq_true, if_false, bind_run]
        have hc := chooseLoop_spec (max ((rem0 - 2) / ((c.s.cfg.mps - (rem0 - 2)) / 2)) Gen.feedMinEstimate)
          (fun m => m.active && m.id != dst) c.s.ms [] 0 c
        generalize chooseLoop (max ((rem0 - 2) / ((c.s.cfg.mps - (rem0 - 2)) / 2)) Gen.feedMinEstimate)
          (fun m => m.active && m.id != dst) c.s.ms [] 0 c = res at hc ⊢
        cases res with
        | ok r c' =>
          obtain ⟨hs, he, _, _⟩ := hc
          simp only []
          by_cases h4 : (E.debug && decide ((feedLoop E r.reverse (rem0 - 2)).2.1 > 65535)) = true
          · simp [h4, SectionOK]
          · simp only [h4, Bool.false_eq_true, if_false, pure_run]
            refine ⟨by rw [hs]; exact OnlyBacklogs.refl _, he, ?_⟩
            have := feedLoop_len E r.reverse (rem0 - 2)
            simp only [List.length_append, u16be_len]
            omega
        | err e c' => exact hc.elim
        | stuck x => simp [SectionOK]
    · simp only [h2, Bool.false_eq_true, if_false]
      cases hf : fill c.s.updates (rem0 - 2) Gen.fillMaxItems 0 pick.updates with
      | none => simp [badOracle, SectionOK]
      | some r =>
        simp only []
        by_cases h5 : r.written.length > 65535
        · simp [h5, SectionOK]
        · simp only [h5, if_false, bind_run, modS_run, pure_run]
          obtain ⟨hw, hsp, _⟩ := fill_space hf
          refine ⟨by unfold OnlyBacklogs; rfl, rfl, ?_⟩
          simp only [List.length_append, u16be_len, flatten_len, hw]
          omega
  · simp only [h1, Bool.false_eq_true, if_false, pure_run]
    exact ⟨OnlyBacklogs.refl _, rfl, by simp⟩

def TailOK (space : Nat) (c : Ctx) (res : R Bytes) : Prop :=
  match res with
  | .ok r c' => OnlyBacklogs c.s c'.s ∧ c'.eff = c.eff ∧ r.length ≤ space
  | .err _ _ => False
  | .stuck _ => True

theorem customTail_spec (dst : Id) (msg : Msg) (pick : Pick) (space : Nat) (c : Ctx) :
    TailOK space c (customTail E dst msg pick space c) := by
  unfold customTail
  simp only [bind_run, getS_run]
  by_cases h1 : (decide (space > 0) && Gen.allowCustom msg && E.handler.shouldAdd c.s.hst dst) = true
  · simp only [h1, if_true]
    cases hf : fill c.s.custom space usizeMax Gen.lenPrefix pick.custom with
    | none => simp [badOracle, TailOK]
    | some r =>
      simp only []
      by_cases h5 : (E.debug && r.written.any (fun d => decide (d.length > 65535))) = true
      · simp [h5, TailOK]
      · simp only [h5, Bool.false_eq_true, if_false, bind_run, modS_run, pure_run]
        obtain ⟨hw, hsp, _⟩ := fill_space hf
        refine ⟨by unfold OnlyBacklogs; rfl, rfl, ?_⟩
        rw [framed_flatten_len, hw]
        omega
  · simp only [h1, Bool.false_eq_true, if_false, pure_run]
    exact ⟨OnlyBacklogs.refl _, rfl, by simp⟩

/-- what one `send_message` call guarantees -/
def SendOK (dst : Id) (msg : Msg) (c : Ctx) (res : R Unit) : Prop :=
  match res with
  | .ok _ c' => OnlyBacklogs c.s c'.s ∧
      ∃ body, c'.eff = c.eff ++ [.send dst (E.codec.encHeader ⟨c.s.id, c.s.inc, dst, msg⟩ ++ body)] ∧
        (E.codec.encHeader ⟨c.s.id, c.s.inc, dst, msg⟩ ++ body).length ≤ c.s.cfg.mps
  | .err e c' => e = .encode ∧ c'.s = c.s ∧ c'.eff = c.eff
  | .stuck _ => True

theorem nextPick_spec (c : Ctx) :
    match nextPick c with
    | .ok _ c' => c'.s = c.s ∧ c'.eff = c.eff
    | .err _ _ => False
    | .stuck _ => True := by
  unfold nextPick
  cases c.orc.picks <;> simp

theorem sendMessage_spec (dst : Id) (msg : Msg) (c : Ctx) : SendOK E dst msg c (sendMessage E dst msg c) := by
  unfold sendMessage
  simp only [bind_run, getS_run]
  by_cases h0 : (E.debug && c.s.sendCap != c.s.cfg.mps) = true
  · simp [h0, SendOK]
  · simp only [h0, Bool.false_eq_true, if_false]
    by_cases h1 : (E.codec.encHeader ⟨c.s.id, c.s.inc, dst, msg⟩).length > c.s.cfg.mps
    · simp [h1, SendOK]
    · simp only [h1, if_false, bind_run]
      have hp := nextPick_spec c
      generalize nextPick c = rp at hp ⊢
      cases rp with
      | err e c1 => exact hp.elim
      | stuck x => simp [SendOK]
      | ok pick c1 =>
        obtain ⟨hs1, he1⟩ := hp
        simp only []
        have hm := memberSection_spec E dst msg pick (c.s.cfg.mps - (E.codec.encHeader ⟨c.s.id, c.s.inc, dst, msg⟩).length) c1
        generalize memberSection E dst msg pick (c.s.cfg.mps - (E.codec.encHeader ⟨c.s.id, c.s.inc, dst, msg⟩).length) c1 = rm at hm ⊢
        cases rm with
        | err e c2 => exact hm.elim
        | stuck x => simp [SendOK]
        | ok sect c2 =>
          obtain ⟨hs2, he2, hl2⟩ := hm
          simp only []
          have ht := customTail_spec E dst msg pick sect.2 c2
          generalize customTail E dst msg pick sect.2 c2 = rt at ht ⊢
          cases rt with
          | err e c3 => exact ht.elim
          | stuck x => simp [SendOK]
          | ok tail c3 =>
            obtain ⟨hs3, he3, hl3⟩ := ht
            simp only [emit_run, SendOK]
            refine ⟨?_, sect.1 ++ tail, ?_, ?_⟩
            · have : OnlyBacklogs c.s c1.s := by rw [hs1]; exact OnlyBacklogs.refl _
              exact (this.trans hs2).trans hs3
            · simp only [he3, he2, he1, List.append_assoc]
            · simp only [List.length_append] at *
              omega

end
end Foca
