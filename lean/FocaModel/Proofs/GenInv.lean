/-
  The identity listed for an address only moves forward: while an address stays listed (no forget-timer for it
  fires), the generation of its record never decreases — over calls with any input.
-/
import FocaModel.Proofs.Frames
namespace Foca

/-- address `a` is listed with an identity of generation at least `g` -/
def GenInv (a g : Nat) (s : State) : Prop := ∃ m ∈ s.ms, m.id.addr = a ∧ m.id.gen ≥ g

/-- an update never lowers the generation of the record it lands on -/
theorem updateKnown_gen (k u : Member) (cond : Member → Bool) (hk : k.id.addr = u.id.addr) :
    (updateKnown k u cond).1.id.addr = k.id.addr ∧ (updateKnown k u cond).1.id.gen ≥ k.id.gen := by
  unfold updateKnown
  by_cases h1 : (k.id != u.id && k.id.wins u.id) = true
  · simp [h1]
  · by_cases h2 : cond k = true
    · by_cases h3 : (k.id != u.id) = true
      · have hw : k.id.wins u.id = false := by
          cases hw : k.id.wins u.id with
          | false => rfl
          | true => simp [h3, hw] at h1
        have : ¬ k.id.gen > u.id.gen := by simpa [Id.wins] using hw
        simp [h1, h2, h3, hw, hk]
        omega
      · by_cases h4 : Gen.canChange k.st k.inc u.inc u.st = true <;> simp [h1, h2, h3, h4]
    · simp [h1, h2]

/-- `apply_existing_if` keeps every record or replaces it by one of the same address and a generation not lower -/
theorem applyExisting_gen {ms ms' : List Member} {u : Member} {cond : Member → Bool} {sm : Summary}
    (h : applyExisting ms u cond = some (ms', sm)) :
    ∀ m ∈ ms, m ∈ ms' ∨ ∃ r ∈ ms', r.id.addr = m.id.addr ∧ r.id.gen ≥ m.id.gen := by
  induction ms generalizing ms' sm with
  | nil => simp [applyExisting] at h
  | cons k rest ih =>
    unfold applyExisting at h
    by_cases hk : (k.id.addr == u.id.addr) = true
    · simp only [hk, if_true] at h
      simp at h
      obtain ⟨h1, _⟩ := h
      subst h1
      intro m hm
      simp only [List.mem_cons] at hm
      rcases hm with hm | hm
      · subst hm
        right
        have := updateKnown_gen m u cond (by simpa using hk)
        exact ⟨_, by simp, this.1, this.2⟩
      · left; simp [hm]
    · simp only [hk, Bool.false_eq_true, if_false] at h
      cases hr : applyExisting rest u cond with
      | none => rw [hr] at h; simp at h
      | some r =>
        obtain ⟨rest', s'⟩ := r
        rw [hr] at h
        simp at h
        obtain ⟨h1, _⟩ := h
        subst h1
        intro m hm
        simp only [List.mem_cons] at hm
        rcases hm with hm | hm
        · left; simp [hm]
        · rcases ih hr m hm with h2 | ⟨r, hr1, hr2⟩
          · left; simp [h2]
          · right; exact ⟨r, by simp [hr1], hr2⟩

section
variable (E : Env) (a g : Nat)

theorem GenInv.of_ms {s s' : State} (h : ∀ m ∈ s.ms, m ∈ s'.ms ∨ ∃ r ∈ s'.ms, r.id.addr = m.id.addr ∧ r.id.gen ≥ m.id.gen)
    (hs : GenInv a g s) : GenInv a g s' := by
  obtain ⟨m, hm, ha, hg⟩ := hs
  rcases h m hm with h1 | ⟨r, hr, hra, hrg⟩
  · exact ⟨m, h1, ha, hg⟩
  · exact ⟨r, hr, by rw [hra]; exact ha, by omega⟩

theorem GenInv.of_same {s s' : State} (h : s'.ms = s.ms) (hs : GenInv a g s) : GenInv a g s' := by
  unfold GenInv at *; rw [h]; exact hs

theorem GenInv.base : Base E (GenInv a g) (fun _ => True) where
  ownDown := fun _ _ => trivial
  membersApply := fun u _ => ⟨fun c hc => by
    unfold Foca.membersApply
    cases h : Foca.applyExisting c.s.ms u (fun _ => true) with
    | some r =>
      obtain ⟨ms', sm⟩ := r
      exact GenInv.of_ms a g (fun m hm => applyExisting_gen h m hm) hc
    | none =>
      simp only
      have hd := drawIdx_frame .choose (c.s.ms.length + 1) c
      cases hdr : Foca.drawIdx .choose (c.s.ms.length + 1) c with
      | stuck x => trivial
      | err e c1 => rw [hdr] at hd; simp only at hd ⊢; rw [hd.1]; exact hc
      | ok j c1 =>
        rw [hdr] at hd
        simp only at hd ⊢
        refine GenInv.of_ms a g (fun m hm => Or.inl ?_) hc
        exact (applyNew_perm c.s.ms u j).mem_iff.2 (List.mem_cons_of_mem _ hm)⟩
  membersApplyExistingIf := fun u cond _ => ⟨fun c hc => by
    unfold Foca.membersApplyExistingIf
    cases h : Foca.applyExisting c.s.ms u cond with
    | some r =>
      obtain ⟨ms', sm⟩ := r
      exact GenInv.of_ms a g (fun m hm => applyExisting_gen h m hm) hc
    | none => exact hc⟩
  membersNext := ⟨fun c hc => by
    unfold Foca.membersNext
    by_cases hs : needsShuffle c.s.cursor c.s.ms.length = true
    · simp only [hs, if_true]
      unfold Foca.drawShuffle
      cases hd : c.orc.draws with
      | nil => trivial
      | cons d rest =>
        cases d with
        | idx k => trivial
        | perm p =>
          simp only
          by_cases hperm : (p.filterMap (fun i => c.s.ms[i]?)).isPerm c.s.ms = true
          · simp only [hperm, if_true]
            have hp : (p.filterMap (fun i => c.s.ms[i]?)).Perm c.s.ms := List.isPerm_iff.1 hperm
            exact ⟨GenInv.of_ms a g (fun m hm => Or.inl (hp.mem_iff.2 hm)) hc, fun _ _ => trivial⟩
          · simp [hperm]
    · simp only [hs, Bool.false_eq_true, if_false]
      exact ⟨GenInv.of_same a g rfl hc, fun _ _ => trivial⟩⟩
  startProbe := fun m _ => Pres.modS_of (fun s hs => GenInv.of_same a g rfl hs)
  sendMessage := Pres.sendMessage E (by intro s s' h hs; exact GenInv.of_same a g (by rw [h]) hs)
  addUpdate := fun m _ => by
    unfold Foca.addUpdate
    exact Pres.modS_of (fun s hs => GenInv.of_same a g rfl hs)
  modCtl := fun f h => Pres.modS_of (fun s hs => GenInv.of_same a g (h s).1 hs)
  setHst := fun _ => Pres.modS_of (fun s hs => GenInv.of_same a g rfl hs)
  addCustom := fun _ _ _ _ => Pres.modS_of (fun s hs => GenInv.of_same a g rfl hs)

theorem GenInv.modId (f : State → State) (h : IdCtl f) : Pres (GenInv a g) (modS f) :=
  Pres.modS_of (fun s hs => GenInv.of_same a g (h s).1 hs)

theorem GenInv.full : Full E (GenInv a g) (fun _ => True) (fun _ => True) (fun _ => True) where
  toBase := GenInv.base E a g
  handleSelfUpdate := (GenInv.base E a g).handleSelfUpdate_of (GenInv.modId a g)
  inputDown := fun _ _ => trivial
  senderOk := fun _ _ _ _ _ => trivial
  applyOk := fun _ _ _ _ _ _ => trivial
  failedOk := fun _ _ _ _ => trivial

/-- the calls that may forget a member: the forget-timer -/
def Op.forgets : Op → Bool
  | .timer (.rm _) => true
  | _ => false

/-- One public call other than a forget-timer — any input — keeps an address that is listed at generation `≥ g`
    listed at generation `≥ g`. -/
theorem GenInv.step (s : State) (op : Op) (orc : Oracle) (h : GenInv a g s) (hop : Op.forgets op = false) :
    match Foca.step E s op orc with
    | .done s' _ _ _ => GenInv a g s'
    | .stuck _ => True := by
  have F := GenInv.full E a g
  have hrun := (F.runOp op
    (fun i p _ => F.toBase.changeIdentity_of (GenInv.modId a g) i p)
    (fun _ => F.toBase.reuseDownIdentity_of (GenInv.modId a g))
    (fun _ _ _ _ => trivial) (fun _ _ _ _ _ => trivial)
    (fun _ _ _ _ _ => ⟨trivial, fun _ _ _ _ _ => trivial⟩)
    (fun id hid => by subst hid; simp [Op.forgets] at hop)).run ⟨s, [], orc⟩ h
  unfold Foca.step
  cases hr : Foca.runOp E op ⟨s, [], orc⟩ with
  | stuck x => trivial
  | ok r c => rw [hr] at hrun; exact hrun
  | err e c => rw [hr] at hrun; exact hrun

end
end Foca
