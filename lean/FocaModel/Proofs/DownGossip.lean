/-
  Down gossip takes effect: the update loop of `handle_data` records as Down what it is told is Down (helpers for
  `C03H.down_gossip_takes_effect`).
-/
import FocaModel.Proofs.Learn
import FocaModel.Proofs.DownInv
namespace Foca
open Foca

/-- a Down claim about `x`, applied to the record at the address of `x`, leaves `x` Down or an identity of a higher
    generation -/
theorem updateKnown_establishes_down (x : Id) (inc' : Nat) (k : Member) :
    DownOk x (updateKnown k ⟨x, inc', .down⟩ (fun _ => true)).1 := by
  unfold updateKnown
  by_cases hne : k.id = x
  · have h1 : (k.id != x) = false := by simp [hne]
    simp only [h1, Bool.false_and, Bool.false_eq_true, ↓reduceIte, Bool.not_true]
    by_cases hc : Gen.canChange k.st k.inc inc' .down = true
    · simp only [hc, ↓reduceIte]
      exact Or.inl ⟨hne, rfl⟩
    · simp only [hc, Bool.false_eq_true, ↓reduceIte]
      refine Or.inl ⟨hne, ?_⟩
      cases hst : k.st with
      | down => rfl
      | alive => simp [Gen.canChange, hst] at hc
      | suspect => simp [Gen.canChange, hst] at hc
  · have h1 : (k.id != x) = true := by simp [hne]
    by_cases hw : k.id.wins x = true
    · simp only [h1, hw, Bool.and_self, ↓reduceIte]
      right
      simpa [Id.wins] using hw
    · simp only [h1, hw, Bool.and_false, Bool.false_eq_true, ↓reduceIte, Bool.not_true]
      exact Or.inl ⟨rfl, rfl⟩

theorem applyExisting_establishes_down (x : Id) (inc' : Nat) {ms ms' : List Member} {sm : Summary}
    (h : applyExisting ms ⟨x, inc', .down⟩ (fun _ => true) = some (ms', sm)) :
    ∃ m ∈ ms', m.id.addr = x.addr ∧ DownOk x m := by
  induction ms generalizing ms' sm with
  | nil => simp [applyExisting] at h
  | cons k rest ih =>
    unfold applyExisting at h
    by_cases hk : (k.id.addr == x.addr) = true
    · simp only [hk, ↓reduceIte, Option.some.injEq, Prod.mk.injEq] at h
      obtain ⟨rfl, _⟩ := h
      exact ⟨_, by simp, updateKnown_addr k ⟨x, inc', .down⟩ (fun _ => true) (by simpa using hk),
        updateKnown_establishes_down x inc' k⟩
    · simp only [hk, Bool.false_eq_true, ↓reduceIte] at h
      cases hr : applyExisting rest ⟨x, inc', .down⟩ (fun _ => true) with
      | none => rw [hr] at h; simp at h
      | some r =>
        obtain ⟨rest', s'⟩ := r
        rw [hr] at h
        simp only [Option.some.injEq, Prod.mk.injEq] at h
        obtain ⟨rfl, _⟩ := h
        obtain ⟨m, hm, h1, h2⟩ := ih hr
        exact ⟨m, by simp [hm], h1, h2⟩

section
variable (E : Env)

theorem applyUpdate_establishes_down (x : Id) (inc' : Nat) (b : Bool) (c c1 : Ctx) (act : Bool)
    (h : Foca.applyUpdate E ⟨x, inc', .down⟩ b c = .ok act c1) : DownInv x c1.s := by
  unfold Foca.applyUpdate at h
  simp only [bind_run, getS_run] at h
  by_cases hdbg : (E.debug && c.s.id == x) = true
  · simp [hdbg, panicAt] at h
  · simp only [hdbg, Bool.false_eq_true, ↓reduceIte, bind_run] at h
    cases hm : Foca.membersApply ⟨x, inc', .down⟩ c with
    | stuck y => rw [hm] at h; simp at h
    | err e c2 => rw [hm] at h; simp at h
    | ok sm c2 =>
      rw [hm] at h
      simp only at h
      have hest : DownInv x c2.s := by
        unfold Foca.membersApply at hm
        cases hx : applyExisting c.s.ms ⟨x, inc', .down⟩ (fun _ => true) with
        | some r =>
          obtain ⟨ms', sm'⟩ := r
          rw [hx] at hm
          simp only [R.ok.injEq] at hm
          rw [← hm.2]
          exact applyExisting_establishes_down x inc' hx
        | none =>
          rw [hx] at hm
          simp only at hm
          cases hd : drawIdx .choose (c.s.ms.length + 1) c with
          | stuck y => rw [hd] at hm; simp at hm
          | err e c3 => rw [hd] at hm; simp at hm
          | ok j c3 =>
            rw [hd] at hm
            simp only [R.ok.injEq] at hm
            rw [← hm.2]
            exact ⟨⟨x, inc', .down⟩, (applyNew_perm c.s.ms ⟨x, inc', .down⟩ j).mem_iff.2 (by simp), rfl, Or.inl ⟨rfl, rfl⟩⟩
      have hp := (handleApplySummary_pres (E := E) (P := DownInv x) (u := ⟨x, inc', .down⟩)
        (by unfold Foca.addUpdate; exact Pres.modS_of (fun s hs => DownInv.of_same x rfl hs)) sm b).run c2 hest
      cases hh : Foca.handleApplySummary E sm ⟨x, inc', .down⟩ b c2 with
      | stuck y => rw [hh] at h; simp at h
      | err e c3 => rw [hh] at h; simp at h
      | ok u3 c3 =>
        rw [hh] at h hp
        simp only [pure_run, R.ok.injEq] at h
        rw [← h.2]
        exact hp

/-- the update loop records as Down what it is told is Down (members of other addresses) -/
theorem applyLoop_downs (b : Bool) (us : List Member) (c c' : Ctx) (h : Foca.applyLoop E b us c = .ok () c') :
    ∀ u ∈ us, u.st = .down → u.id.addr ≠ c.s.id.addr → DownInv u.id c'.s := by
  induction us generalizing c with
  | nil => intro u hu; simp at hu
  | cons x rest ih =>
    unfold Foca.applyLoop at h
    simp only [bind_run] at h
    cases h1 : Foca.applyOne E x b c with
    | stuck y => rw [h1] at h; simp at h
    | err e c1 => rw [h1] at h; simp at h
    | ok u1 c1 =>
      rw [h1] at h
      simp only at h
      have haddr : c1.s.id.addr = c.s.id.addr := by
        have := (AddrIs.applyOne E c.s.id.addr x b).run c rfl
        rw [h1] at this
        exact this
      intro u hu hst hne
      simp only [List.mem_cons] at hu
      rcases hu with rfl | hu
      · have g1 : DownInv u.id c1.s := by
          unfold Foca.applyOne at h1
          simp only [bind_run, getS_run] at h1
          have e1 : (u.id == c.s.id) = false := by
            apply beq_false_of_ne
            intro hx; exact hne (by rw [hx])
          have e2 : (c.s.id.addr == u.id.addr) = false := by
            apply beq_false_of_ne
            exact fun hx => hne hx.symm
          simp only [e1, e2, Bool.false_eq_true, ↓reduceIte, bind_run] at h1
          cases hr : Foca.applyUpdate E u b c with
          | stuck y => rw [hr] at h1; simp at h1
          | err e c2 => rw [hr] at h1; simp at h1
          | ok act c2 =>
            rw [hr] at h1
            simp only [pure_run, R.ok.injEq, true_and] at h1
            rw [← h1]
            have hu' : u = ⟨u.id, u.inc, .down⟩ := by cases u; simp_all
            rw [hu'] at hr
            exact applyUpdate_establishes_down E u.id u.inc b c c2 act hr
        have := ((DownInv.full (E := E) (x := u.id)).applyLoop b rest (fun _ _ => trivial)).run c1 g1
        rw [h] at this
        exact this
      · exact ih c1 h u hu hst (by rw [haddr]; exact hne)

/-- **Down gossip takes effect.** After a successful `handle_data` of a datagram addressed to the instance, from a
    sender it considers active: every member the update section says is Down — other than members of the instance's
    own address — is recorded Down, or its address is held by a newer identity. -/
theorem handleData_downs (data : Bytes) (c c' : Ctx) (hrun : Foca.handleData E data c = .ok () c')
    (h : Header) (rest : Bytes) (hdec : E.codec.decHeader data = some (h, rest)) (hdst : h.dst = c.s.id)
    (us : List Member) (tail : Bytes) (hparse : parseSection E h rest = some (us, tail)) :
    (∀ u ∈ us, u.st = .down → u.id.addr ≠ c.s.id.addr → DownInv u.id c'.s) ∨
      ∃ c1, Foca.applyUpdate E ⟨h.src, h.srcInc, .alive⟩ true c = .ok false c1 := by
  obtain ⟨h', rest', hdec', hcase⟩ := handleData_ok E data _ _ hrun
  rw [hdec] at hdec'
  simp only [Option.some.injEq, Prod.mk.injEq] at hdec'
  obtain ⟨rfl, rfl⟩ := hdec'
  rcases hcase with ⟨hacc, _⟩ | ⟨updates, tail', hparse', act, c1, hu, hcase⟩
  · exfalso
    simp [Gen.acceptPayload, hdst] at hacc
  · rw [hparse] at hparse'
    simp only [Option.some.injEq, Prod.mk.injEq] at hparse'
    obtain ⟨rfl, rfl⟩ := hparse'
    rcases hcase with ⟨hf, _⟩ | ⟨_, c2, cres, c3, hm, hcb, hrs⟩
    · right; subst hf; exact ⟨c1, hu⟩
    · left
      intro u hu' hst hne
      have F := DownInv.full (E := E) (x := u.id)
      have haddr : c1.s.id.addr = c.s.id.addr := by
        have := ((AddrIs.base E c.s.id.addr).applyUpdate ⟨h.src, h.srcInc, .alive⟩ true trivial).run c rfl
        rw [hu] at this
        exact this
      unfold Foca.applyMany at hm
      simp only [bind_run] at hm
      cases hl : Foca.applyLoop E true us c1 with
      | stuck y => rw [hl] at hm; simp at hm
      | err e c1' => rw [hl] at hm; simp at hm
      | ok ul c1' =>
        rw [hl] at hm
        simp only at hm
        have g1 := applyLoop_downs E true us c1 c1' hl u hu' hst (by rw [haddr]; exact hne)
        have g2 := (F.toBase.adjustConnectionState).run c1' g1
        rw [hm] at g2
        have r3 := (Pres.attempt (F.toBase.handleCustomBroadcasts tail (some h.src))).run c2 g2
        rw [hcb] at r3
        have r4 := (F.replyStage h cres).run c3 r3
        rw [hrs] at r4
        exact r4

end
end Foca
