/-
  A calm cluster stays calm: as long as no probe round fails, nobody leaves or renames and no Suspect or Down claim
  comes in from outside, an instance holds only Alive records about the cluster's identities, keeps only such updates
  in its backlog, puts only such updates into its datagrams and schedules no suspicion timer. This is the
  zero-false-suspicion clause of C02 with its timing premise ("every probe round is answered in time") made
  explicit; the simulator explores the premise, this file proves what follows from it.

  The walk is over the functions a calm call can reach; the paths that create suspicion (a failed probe round, a
  suspicion timeout, `leave_cluster`, identity changes, Suspect/Down input, TurnUndead) are excluded by hypotheses
  at the places where they branch off.
-/
import FocaModel.Proofs.SentInv
import FocaModel.Props.C18
namespace Foca
open Foca.C07 Foca.C07H

section
variable {P : State → List Effect → Prop}

theorem PresER.pure {α} {R : α → Prop} (a : α) (h : R a) : PresER P R (Pure.pure a : M α) := ⟨fun _ hc => ⟨hc, h⟩⟩

theorem PresER.panicAt {α} {R : α → Prop} (p : PanicSite) : PresER P R (Foca.panicAt p : M α) := ⟨fun _ _ => trivial⟩

theorem PresER.getS_with {β} {R : β → Prop} {f : State → M β} (h : ∀ s eff, P s eff → PresER P R (f s)) :
    PresER P R (Foca.getS >>= f) :=
  ⟨fun c hc => by simp only [bind_run, getS_run]; exact (h c.s c.eff hc).run c hc⟩

theorem PresER.bindR {α β} {Q : α → Prop} {R : β → Prop} {m : M α} {f : α → M β} (hm : PresER P Q m)
    (hf : ∀ a, Q a → PresER P R (f a)) : PresER P R (m >>= f) := by
  constructor
  intro c hc
  have := hm.run c hc
  simp only [bind_run]
  cases hmc : m c with
  | stuck x => trivial
  | err e c' => rw [hmc] at this; exact this
  | ok a c' => rw [hmc] at this; exact (hf a this.2).run c' this.1

theorem PresER.bindE {α β} {R : β → Prop} {m : M α} {f : α → M β} (hm : PresE P m)
    (hf : ∀ a, PresER P R (f a)) : PresER P R (m >>= f) := by
  constructor
  intro c hc
  have := hm.run c hc
  simp only [bind_run]
  cases hmc : m c with
  | stuck x => trivial
  | err e c' => rw [hmc] at this; exact this
  | ok a c' => rw [hmc] at this; exact (hf a).run c' this

end

section
variable (E : Env) (τ : Id → Nat) (ids : List Id) (K : Msg → Prop)

/-- an Alive claim at incarnation 0 about one of the cluster's identities, within the wire range -/
def CalmM (u : Member) : Prop := MW τ u ∧ u.st = .alive ∧ u.id ∈ ids ∧ u.inc = 0

theorem CalmM.mono {τ τ' : Id → Nat} {ids : List Id} (h : ∀ id, τ id ≤ τ' id) {m : Member} (hm : CalmM τ ids m) :
    CalmM τ' ids m := ⟨MW.mono h hm.1, hm.2⟩

/-- the cluster's identities have pairwise different addresses -/
def DistinctAddrs (ids : List Id) : Prop := ∀ a ∈ ids, ∀ b ∈ ids, a.addr = b.addr → a = b

def CalmInv (s : State) : Prop :=
  (IdWire s.id ∧ s.id ∈ ids) ∧ (s.inc = 0 ∧ s.probe.number < 256) ∧ (∀ m ∈ s.ms, CalmM τ ids m) ∧
  (∀ e ∈ s.updates, ∃ u : Member, e.data = E.codec.encMember u ∧ CalmM τ ids u) ∧ CustomNE s

theorem CalmInv.mono {τ' : Id → Nat} (hle : ∀ id, τ id ≤ τ' id) {s : State} (h : CalmInv E τ ids s) :
    CalmInv E τ' ids s := by
  obtain ⟨hid, hinc, ha, hc, hcu⟩ := h
  refine ⟨hid, hinc, fun m hm => CalmM.mono hle (ha m hm), ?_, hcu⟩
  intro e he
  obtain ⟨u, hu1, hu2⟩ := hc e he
  exact ⟨u, hu1, CalmM.mono hle hu2⟩

theorem CalmInv.sendReady {s : State} (h : CalmInv E τ ids s) : SendReady E (CalmM τ ids) s :=
  ⟨h.2.2.1, h.2.2.2.1, h.2.2.2.2⟩

/-- what a calm call may emit: datagrams of the documented shape that carry only Alive claims about the cluster's
    identities, from an identity of the cluster, of a kind in `K`; no suspicion timer, no forget-timer -/
def CalmEff (e : Effect) : Prop :=
  match e with
  | .send d b => ∃ h : Header, h.dst = d ∧ HWire h ∧ (h.src ∈ ids ∧ h.srcInc = 0) ∧ K h.msg ∧ DatagramShape E (CalmM τ ids) h b
  | .timer _ (.s2d _ _ _) => False
  | .timer _ (.rm _) => False
  | _ => True

/-- a forget-timer -/
def isRmT : Effect → Bool
  | .timer _ (.rm _) => true
  | _ => false

def CalmSent (s : State) (eff : List Effect) : Prop := CalmInv E τ ids s ∧ ∀ e ∈ eff, CalmEff E τ ids K e

abbrev CalmP {α} (m : M α) : Prop := PresE (CalmSent E τ ids K) m

/-- a state change that keeps identity, incarnation, membership, both backlogs and the probe number -/
theorem CalmInv.of_same {s s' : State} (h0 : s'.id = s.id) (hi : s'.inc = s.inc) (h1 : s'.ms = s.ms)
    (h2 : s'.updates = s.updates) (h3 : s'.custom = s.custom) (h4 : s'.probe.number = s.probe.number)
    (h : CalmInv E τ ids s) : CalmInv E τ ids s' := by
  obtain ⟨hid, hinc, ha, hc, hcu⟩ := h
  exact ⟨by rw [h0]; exact hid, by rw [hi, h4]; exact hinc, by rw [h1]; exact ha, by rw [h2]; exact hc,
    by unfold CustomNE at *; rw [h3]; exact hcu⟩

theorem CalmP.modS_same {f : State → State} (h : ∀ s, (f s).id = s.id ∧ (f s).inc = s.inc ∧ (f s).ms = s.ms ∧
    (f s).updates = s.updates ∧ (f s).custom = s.custom ∧ (f s).probe.number = s.probe.number) :
    CalmP E τ ids K (Foca.modS f) :=
  PresE.modS_of (fun s eff hs => ⟨CalmInv.of_same E τ ids (h s).1 (h s).2.1 (h s).2.2.1 (h s).2.2.2.1 (h s).2.2.2.2.1
    (h s).2.2.2.2.2 hs.1, hs.2⟩)

theorem CalmP.silent {α} {m : M α} (h : Pres (CalmInv E τ ids) m) (hs : Silent m) : CalmP E τ ids K m :=
  PresE.of_pres_silent h hs

/-- anything emitted that is neither a datagram nor a suspicion timer nor a forget-timer -/
theorem CalmP.emit (e : Effect) (he : isSend e = false) (hs2 : isS2d e = false) (hrm : isRmT e = false) :
    CalmP E τ ids K (Foca.emit e) :=
  PresE.emit_of (fun s eff h => ⟨h.1, fun x hx => by
    rcases List.mem_append.1 hx with hx | hx
    · exact h.2 x hx
    · simp only [List.mem_singleton] at hx
      subst hx
      cases x with
      | send d b => simp [isSend] at he
      | notify n => trivial
      | timer a t => cases t <;> first | trivial | simp [isS2d] at hs2 | simp [isRmT] at hrm⟩)

theorem CalmInv.membersApply (u : Member) (hu : CalmM τ ids u) : Pres (CalmInv E τ ids) (Foca.membersApply u) :=
  ⟨fun c hc => by
    obtain ⟨hid, hinc, ha, hcc, hcu⟩ := hc
    unfold Foca.membersApply
    cases h : Foca.applyExisting c.s.ms u (fun _ => true) with
    | some r =>
      obtain ⟨ms', sm⟩ := r
      exact ⟨hid, hinc, applyExisting_all h hu ha, hcc, hcu⟩
    | none =>
      simp only
      have hd := drawIdx_frame .choose (c.s.ms.length + 1) c
      cases hdr : Foca.drawIdx .choose (c.s.ms.length + 1) c with
      | stuck x => trivial
      | err e c1 => rw [hdr] at hd; simp only at hd ⊢; rw [hd.1]; exact ⟨hid, hinc, ha, hcc, hcu⟩
      | ok j c1 =>
        rw [hdr] at hd
        simp only at hd ⊢
        rw [hd.1]
        refine ⟨hid, hinc, ?_, hcc, hcu⟩
        intro m hm
        have := (applyNew_perm c.s.ms u j).mem_iff.1 hm
        simp only [List.mem_cons] at this
        rcases this with h1 | h1
        · subst h1; exact hu
        · exact ha m h1⟩

theorem alive_active {m : Member} (h : m.st = .alive) : m.active = true := by
  simp [Member.active, h, Gen.isActive]

/-- in a calm list of a cluster with distinct addresses an Alive update about a cluster identity never meets a
    conflicting identity: the member is active afterwards -/
theorem applyExisting_calm_summary (hd : DistinctAddrs ids) {ms ms' : List Member} {u : Member} {sm : Summary}
    (h : applyExisting ms u (fun _ => true) = some (ms', sm)) (hu : CalmM τ ids u) (hinv : ∀ m ∈ ms, CalmM τ ids m) :
    sm.activeNow = true ∧ sm.conflict = .none := by
  induction ms generalizing ms' sm with
  | nil => simp [applyExisting] at h
  | cons k rest ih =>
    unfold applyExisting at h
    by_cases hk : (k.id.addr == u.id.addr) = true
    · simp only [hk, if_true] at h
      simp at h
      obtain ⟨_, h2⟩ := h
      subst h2
      have hkc := hinv k (by simp)
      have hid : k.id = u.id := hd k.id hkc.2.2.1 u.id hu.2.2.1 (by simpa using hk)
      unfold updateKnown
      have hus := hu.2.1
      by_cases h4 : Gen.canChange k.st k.inc u.inc .alive = true
      · simp [hid, h4, Member.active, hus, Gen.isActive]
      · simp [hid, h4, hus, alive_active hkc.2.1]
    · simp only [hk, Bool.false_eq_true, if_false] at h
      cases hr : applyExisting rest u (fun _ => true) with
      | none => rw [hr] at h; simp at h
      | some r =>
        obtain ⟨rest', s'⟩ := r
        rw [hr] at h
        simp at h
        obtain ⟨_, h2⟩ := h
        subst h2
        exact ih hr (fun x hx => hinv x (by simp [hx]))

theorem CalmP.membersApply (hd : DistinctAddrs ids) (u : Member) (hu : CalmM τ ids u) :
    PresER (CalmSent E τ ids K) (fun sm => sm.activeNow = true ∧ sm.conflict = .none) (Foca.membersApply u) := by
  constructor
  intro c hc
  have h1 := (CalmInv.membersApply E τ ids u hu).run c hc.1
  have h2 := Silent.membersApply u c
  cases hm : Foca.membersApply u c with
  | stuck x => trivial
  | err e c' => rw [hm] at h1 h2; simp only at h1 h2 ⊢; rw [h2]; exact ⟨h1, hc.2⟩
  | ok sm c' =>
    rw [hm] at h1 h2
    simp only at h1 h2 ⊢
    rw [h2]
    refine ⟨⟨h1, hc.2⟩, ?_⟩
    unfold Foca.membersApply at hm
    cases h : Foca.applyExisting c.s.ms u (fun _ => true) with
    | some r =>
      obtain ⟨ms', sm'⟩ := r
      rw [h] at hm
      simp only [R.ok.injEq] at hm
      rw [← hm.1]
      exact applyExisting_calm_summary τ ids hd h hu hc.1.2.2.1
    | none =>
      rw [h] at hm
      simp only at hm
      cases hdr : Foca.drawIdx .choose (c.s.ms.length + 1) c with
      | stuck x => rw [hdr] at hm; simp at hm
      | err e c1 => rw [hdr] at hm; simp at hm
      | ok j c1 =>
        rw [hdr] at hm
        simp only [R.ok.injEq] at hm
        rw [← hm.1]
        simp [applyNew, alive_active hu.2.1]

theorem CalmP.membersNext :
    PresER (CalmSent E τ ids K) (fun r => ∀ m, r = some m → CalmM τ ids m) Foca.membersNext := by
  constructor
  intro c hc
  obtain ⟨⟨hid, hinc, ha, hcc, hcu⟩, heff⟩ := hc
  have key : ∀ (l : List Member) (i : Nat), (∀ m ∈ l, CalmM τ ids m) →
      ∀ m, (nextPure l i).1 = some m → CalmM τ ids m := by
    intro l i hl m hm
    exact hl m (Foca.C14.next_returns_an_active_member l i m hm).1
  unfold Foca.membersNext
  by_cases hs : needsShuffle c.s.cursor c.s.ms.length = true
  · simp only [hs, if_true]
    unfold Foca.drawShuffle
    cases hd : c.orc.draws with
    | nil => trivial
    | cons d rest =>
      cases d with
      | idx k => trivial
      | perm p =>
        simp only
        by_cases hperm : (p.filterMap (fun i => c.s.ms[i]?)).isPerm c.s.ms = true
        · simp only [hperm, if_true]
          have hp : (p.filterMap (fun i => c.s.ms[i]?)).Perm c.s.ms := List.isPerm_iff.1 hperm
          have ha' : ∀ m ∈ p.filterMap (fun i => c.s.ms[i]?), CalmM τ ids m := fun m hm => ha m (hp.mem_iff.1 hm)
          exact ⟨⟨⟨hid, hinc, ha', hcc, hcu⟩, heff⟩, key _ _ ha'⟩
        · simp [hperm]
  · simp only [hs, Bool.false_eq_true, if_false]
    exact ⟨⟨⟨hid, hinc, ha, hcc, hcu⟩, heff⟩, key _ _ ha⟩

theorem CalmP.startProbe (m : Member) : CalmP E τ ids K (Foca.modS fun s => { s with probe := s.probe.start m }) :=
  PresE.modS_of (fun s eff hs => by
    obtain ⟨⟨hid, hinc, ha, hcc, hcu⟩, heff⟩ := hs
    exact ⟨⟨hid, ⟨hinc.1, by simp only [Probe.start, Gen.probeNumberBump, wrapAdd8]; omega⟩, ha, hcc, hcu⟩, heff⟩)

/-- `send_message` to a destination within the wire range, with a message within the range that is not a
    TurnUndead: one datagram of the calm shape -/
theorem CalmP.sendMessage (d : Id) (m : Msg) (hd : IdWire d) (hm : MsgWire m) (hk : K m) :
    CalmP E τ ids K (Foca.sendMessage E d m) := by
  constructor
  intro c hc
  have hsh := sendMessage_shape E (CalmM τ ids) d m c (CalmInv.sendReady E τ ids hc.1)
  have h1 := sendMessage_upd E d m c
  have h2 := sendMessage_spec E d m c
  have h3 := sendMessage_custom E d m c
  cases h : Foca.sendMessage E d m c with
  | stuck x => trivial
  | err e c' => rw [h] at h2; simp only [SendOK] at h2 ⊢; rw [h2.2.1, h2.2.2]; exact hc
  | ok a c' =>
    rw [h] at h1 h2 h3 hsh
    simp only [SendOK, SentShape] at h1 h2 h3 hsh ⊢
    obtain ⟨⟨hid, hinc, ha, hcc, hcu⟩, heff⟩ := hc
    have hob := h2.1
    obtain ⟨bytes, hbe, _, hshape⟩ := hsh
    refine ⟨⟨by rw [hob.id]; exact hid, by rw [hob]; exact hinc, by rw [hob.ms]; exact ha, ?_, ?_⟩, ?_⟩
    · rcases h1 with h1 | ⟨sp, picks, r, hf, h1⟩
      · rw [h1]; exact hcc
      · rw [h1]
        exact fill_data (fun d => ∃ u : Member, d = E.codec.encMember u ∧ CalmM τ ids u) hf hcc
    · unfold CustomNE at *
      rcases h3 with h3 | ⟨sp, picks, r, hf, h3⟩
      · rw [h3]; exact hcu
      · rw [h3]; exact fill_data (fun d => 1 ≤ d.length) hf hcu
    · intro e he
      rw [hbe] at he
      rcases List.mem_append.1 he with he | he
      · exact heff e he
      · simp only [List.mem_singleton] at he
        subst he
        exact ⟨⟨c.s.id, c.s.inc, d, m⟩, rfl, ⟨hid.1, by show c.s.inc < 65536; rw [hinc.1]; omega, hd, hm⟩, ⟨hid.2, hinc.1⟩, hk, hshape⟩

theorem CalmP.addUpdate (u : Member) (hu : CalmM τ ids u) : CalmP E τ ids K (Foca.addUpdate E u) := by
  unfold Foca.addUpdate
  refine PresE.modS_of (fun s eff hs => ?_)
  obtain ⟨⟨hid, hinc, ha, hcc, hcu⟩, heff⟩ := hs
  refine ⟨⟨hid, hinc, ha, ?_, hcu⟩, heff⟩
  intro e he
  simp only [addOrReplace, List.mem_append, List.mem_filter, List.mem_singleton] at he
  rcases he with he | he
  · exact hcc e he.1
  · rw [he]; exact ⟨u, rfl, hu⟩

theorem CalmP.chooseLoop (w : Nat) (pick : Member → Bool) (l : List Member) :
    PresER (CalmSent E τ ids K) (fun r => ∀ m ∈ r, m ∈ l ∧ pick m = true) (Foca.chooseLoop w pick l [] 0) :=
  PresER.chooseLoop w pick l

theorem CalmP.setHst (h' : HSt) : CalmP E τ ids K (Foca.modS fun s => { s with hst := h' }) :=
  CalmP.modS_same E τ ids K (fun _ => ⟨rfl, rfl, rfl, rfl, rfl, rfl⟩)

theorem CalmP.addCustom (h' : HSt) (key : Key) (data : Bytes) (hd : 1 ≤ data.length) :
    CalmP E τ ids K (Foca.modS fun s =>
      { s with hst := h', custom := addOrReplace s.custom E.handler.invalidates key data s.cfg.maxTx }) :=
  PresE.modS_of (fun s eff hs => by
    obtain ⟨⟨hid, hinc, ha, hcc, hcu⟩, heff⟩ := hs
    refine ⟨⟨hid, hinc, ha, hcc, ?_⟩, heff⟩
    unfold CustomNE at *
    intro e he
    simp only [addOrReplace, List.mem_append, List.mem_filter, List.mem_singleton] at he
    rcases he with he | he
    · exact hcu e he.1
    · rw [he]; exact hd)

end

macro "calm_step" : tactic => `(tactic| first
  | exact PresE.pure _
  | exact PresE.getS
  | exact PresE.throwE _
  | exact PresE.panicAt _
  | exact PresE.badOracle _
  | exact PresE.drawIdx _ _
  | exact PresE.nextPick
  | exact CalmP.emit _ _ _ _ _ rfl rfl rfl
  | exact CalmP.modS_same _ _ _ _ (fun _ => ⟨rfl, rfl, rfl, rfl, rfl, rfl⟩)
  | with_reducible apply PresE.bind
  | with_reducible apply PresE.ite
  | (intro _; try dsimp only)
  | split)

macro "calm" : tactic => `(tactic| repeat' calm_step)

section
variable (E : Env) (τ : Id → Nat) (ids : List Id) (K : Msg → Prop)

theorem CalmP.sendAll (msg : Msg) (ds : List Id) (hm : MsgWire msg) (hnt : K msg)
    (hds : ∀ d ∈ ds, IdWire d) : CalmP E τ ids K (Foca.sendAll E msg ds) := by
  induction ds with
  | nil => unfold Foca.sendAll; exact PresE.pure _
  | cons d rest ih =>
    unfold Foca.sendAll
    exact PresE.bind (CalmP.sendMessage E τ ids K d msg (hds d (by simp)) hm hnt)
      (fun _ => ih (fun x hx => hds x (by simp [hx])))

theorem CalmP.chooseAndSend (num : Nat) (msg : Msg) (hm : MsgWire msg) (hnt : K msg) :
    CalmP E τ ids K (Foca.chooseAndSend E num msg) := by
  unfold Foca.chooseAndSend
  refine PresE.getS_with (fun s eff hs => ?_)
  refine PresER.bind (CalmP.chooseLoop E τ ids K _ _ _) (fun chosen hch => ?_)
  refine CalmP.sendAll E τ ids K _ _ hm hnt (fun d hd => ?_)
  simp only [List.mem_map, List.mem_reverse] at hd
  obtain ⟨m, hm1, hm2⟩ := hd
  rw [← hm2]
  exact (hs.1.2.2.1 m (hch m hm1).1).1.1.1

theorem CalmP.gossip (hK : ∀ m, m ≠ .turnUndead → K m) : CalmP E τ ids K (Foca.gossip E) := by
  unfold Foca.gossip
  calm
  exact CalmP.chooseAndSend E τ ids K _ _ trivial (hK _ (by simp))

theorem CalmP.announceToDown (hK : ∀ m, m ≠ .turnUndead → K m) (num : Nat) : CalmP E τ ids K (Foca.announceToDown E num) := by
  unfold Foca.announceToDown
  refine PresE.getS_with (fun s eff hs => ?_)
  refine PresER.bind (CalmP.chooseLoop E τ ids K _ _ _) (fun chosen hch => ?_)
  refine CalmP.sendAll E τ ids K _ _ trivial (hK _ (by simp)) (fun d hd => ?_)
  simp only [List.mem_map, List.mem_reverse] at hd
  obtain ⟨m, hm1, hm2⟩ := hd
  rw [← hm2]
  exact (hs.1.2.2.1 m (hch m hm1).1).1.1.1

theorem CalmP.adjustConnectionState : CalmP E τ ids K (Foca.adjustConnectionState E) := by
  unfold Foca.adjustConnectionState Foca.becomeConnected Foca.becomeDisconnected
  calm

theorem CalmP.handleApplySummary (sm : Summary) (u : Member) (b : Bool) (hu : CalmM τ ids u)
    (hact : sm.activeNow = true) : CalmP E τ ids K (Foca.handleApplySummary E sm u b) := by
  unfold Foca.handleApplySummary
  simp only [hact, Bool.not_true, Bool.false_eq_true, if_false]
  calm
  all_goals exact CalmP.addUpdate E τ ids K _ hu

/-- applying an Alive update about a cluster identity: the member is active afterwards -/
theorem CalmP.applyUpdate (hd : DistinctAddrs ids) (u : Member) (b : Bool) (hu : CalmM τ ids u) :
    PresER (CalmSent E τ ids K) (fun active => active = true) (Foca.applyUpdate E u b) := by
  unfold Foca.applyUpdate
  refine PresER.getS_with (fun s eff hs => ?_)
  split
  · exact PresER.panicAt _
  · refine PresER.bindR (CalmP.membersApply E τ ids K hd u hu) (fun sm hsm => ?_)
    refine PresER.bindE (CalmP.handleApplySummary E τ ids K sm u b hu hsm.1) (fun _ => PresER.pure _ ?_)
    rw [hsm.2]
    exact hsm.1

theorem CalmP.applyOne (hd : DistinctAddrs ids) (u : Member) (b : Bool) (hu : CalmM τ ids u) :
    CalmP E τ ids K (Foca.applyOne E u b) := by
  unfold Foca.applyOne
  refine PresE.getS_with (fun s eff hs => ?_)
  split
  · unfold Foca.handleSelfUpdate
    rw [hu.2.1]
    exact PresE.pure _
  · rename_i hne
    split
    · rename_i haddr
      exfalso
      have : s.id = u.id := hd s.id hs.1.1.2 u.id hu.2.2.1 (by simpa using haddr)
      rw [this] at hne
      simp at hne
    · exact PresER.bind (CalmP.applyUpdate E τ ids K hd u b hu) (fun _ _ => PresE.pure _)

theorem CalmP.applyLoop (hd : DistinctAddrs ids) (b : Bool) (us : List Member) (hus : ∀ u ∈ us, CalmM τ ids u) :
    CalmP E τ ids K (Foca.applyLoop E b us) := by
  induction us with
  | nil => unfold Foca.applyLoop; exact PresE.pure _
  | cons u rest ih =>
    unfold Foca.applyLoop
    exact PresE.bind (CalmP.applyOne E τ ids K hd u b (hus u (by simp))) (fun _ => ih (fun x hx => hus x (by simp [hx])))

theorem CalmP.applyMany (hd : DistinctAddrs ids) (us : List Member) (b : Bool) (hus : ∀ u ∈ us, CalmM τ ids u) :
    CalmP E τ ids K (Foca.applyMany E us b) := by
  unfold Foca.applyMany
  exact PresE.bind (CalmP.applyLoop E τ ids K hd b us hus) (fun _ => CalmP.adjustConnectionState E τ ids K)

theorem CalmP.customLoop (sender : Option Id) (fuel : Nat) (data : Bytes) :
    CalmP E τ ids K (Foca.customLoop E sender fuel data) := by
  induction fuel generalizing data with
  | zero => unfold Foca.customLoop; exact PresE.throwE _
  | succ f ih =>
    unfold Foca.customLoop
    split
    · split
      · rename_i hi lo rest _
        dsimp only
        by_cases hbad : (hi * 256 + lo == 0 || decide (rest.length < hi * 256 + lo)) = true
        · simp only [hbad, if_true]; exact PresE.throwE _
        · have hlen : 1 ≤ (rest.take (hi * 256 + lo)).length := by
            simp only [Bool.or_eq_true, beq_iff_eq, decide_eq_true_eq, not_or, Nat.not_lt] at hbad
            rw [List.length_take]
            omega
          simp only [hbad, Bool.false_eq_true, if_false]
          calm
          all_goals first
            | exact CalmP.setHst E τ ids K _
            | exact CalmP.addCustom E τ ids K _ _ _ hlen
            | exact ih _
      · exact PresE.throwE _
    · calm

theorem CalmP.handleCustomBroadcasts (data : Bytes) (sender : Option Id) :
    CalmP E τ ids K (Foca.handleCustomBroadcasts E data sender) := by
  unfold Foca.handleCustomBroadcasts
  calm
  exact CalmP.customLoop E τ ids K _ _ _

/-- the header of a datagram a calm instance accepts: within the wire range, from a cluster identity at an
    incarnation it announced, not a TurnUndead -/
def CalmH (h : Header) : Prop := HWire h ∧ h.src ∈ ids ∧ h.srcInc ≤ τ h.src ∧ h.msg ≠ .turnUndead ∧ h.srcInc = 0

theorem CalmH.sender {τ : Id → Nat} {ids : List Id} {h : Header} (hh : CalmH τ ids h) :
    CalmM τ ids ⟨h.src, h.srcInc, .alive⟩ :=
  ⟨⟨⟨hh.1.1, hh.1.2.1⟩, hh.2.2.1⟩, rfl, hh.2.1, hh.2.2.2.2⟩

theorem CalmP.probeMod (f : Probe → Probe) (hf : ∀ p, (f p).number = p.number) :
    CalmP E τ ids K (Foca.modS fun s => { s with probe := f s.probe }) :=
  CalmP.modS_same E τ ids K (fun s => ⟨rfl, rfl, rfl, rfl, rfl, hf s.probe⟩)

theorem CalmP.reactToMessage (h : Header) (hh : CalmH τ ids h)
    (hR : ∀ src d r, C18.replyOf src h.msg = some (d, r) → K r) : CalmP E τ ids K (Foca.reactToMessage E h) := by
  unfold Foca.reactToMessage
  refine PresE.getS_with (fun s eff hs => ?_)
  obtain ⟨⟨hsrc, _, _, hmsg⟩, _, _, hntu, _⟩ := hh
  cases hm : h.msg with
  | ping n =>
    rw [hm] at hmsg
    exact CalmP.sendMessage E τ ids K _ _ hsrc hmsg (hR h.src _ _ (by rw [hm]; rfl))
  | ack n => exact CalmP.probeMod E τ ids K (fun p => p.receiveAck h.src n) (fun p => Probe.receiveAck_number p _ _)
  | pingReq t n =>
    rw [hm] at hmsg
    dsimp only
    split
    · exact PresE.throwE _
    · exact CalmP.sendMessage E τ ids K _ _ hmsg.1 ⟨hsrc, hmsg.2⟩ (hR h.src _ _ (by rw [hm]; rfl))
  | indirectPing o n =>
    rw [hm] at hmsg
    dsimp only
    split
    · exact PresE.throwE _
    · exact CalmP.sendMessage E τ ids K _ _ hsrc hmsg (hR h.src _ _ (by rw [hm]; rfl))
  | indirectAck t n =>
    rw [hm] at hmsg
    dsimp only
    split
    · exact PresE.throwE _
    · exact CalmP.sendMessage E τ ids K _ _ hmsg.1 ⟨hsrc, hmsg.2⟩ (hR h.src _ _ (by rw [hm]; rfl))
  | forwardedAck o n =>
    dsimp only
    split
    · exact PresE.throwE _
    · exact CalmP.probeMod E τ ids K (fun p => p.receiveIndirectAck h.src n) (fun p => Probe.receiveIndirectAck_number p _ _)
  | announce => exact CalmP.sendMessage E τ ids K _ _ hsrc trivial (hR h.src _ _ (by rw [hm]; rfl))
  | turnUndead => exact absurd hm hntu
  | gossip => exact PresE.pure _
  | feed => exact PresE.pure _
  | broadcast => exact PresE.pure _

theorem CalmP.replyStage (h : Header) (cres : Option ErrKind) (hh : CalmH τ ids h)
    (hR : ∀ src d r, C18.replyOf src h.msg = some (d, r) → K r) :
    CalmP E τ ids K (Foca.replyStage E h cres) := by
  unfold Foca.replyStage
  calm
  exact CalmP.reactToMessage E τ ids K _ hh hR

/-- `handle_data` of a datagram that carries Alive claims about cluster identities under a calm header -/
theorem CalmP.handleData (hd : DistinctAddrs ids) (data : Bytes) (hdat : DataOk E (CalmM τ ids) (CalmH τ ids) data)
    (hR : ∀ h rest, E.codec.decHeader data = some (h, rest) → ∀ src d r, C18.replyOf src h.msg = some (d, r) → K r) :
    CalmP E τ ids K (Foca.handleData E data) := by
  unfold Foca.handleData
  refine PresE.getS_with (fun s eff hs => ?_)
  split
  · exact PresE.throwE _
  · split
    · exact PresE.throwE _
    · rename_i h rest hdec
      split
      · exact PresE.throwE _
      · dsimp only
        split
        · exact PresE.throwE _
        · split
          · exact PresE.pure _
          · split
            · exact PresE.throwE _
            · rename_i updates tail hparse
              obtain ⟨hh, hmem⟩ := hdat h rest hdec
              refine PresER.bind (CalmP.applyUpdate E τ ids K hd _ _ hh.sender) (fun senderActive hact => ?_)
              split
              · rename_i hna
                rw [hact] at hna
                simp at hna
              · exact PresE.bind (CalmP.applyMany E τ ids K hd _ _ (hmem updates tail hparse)) (fun _ =>
                  PresE.bind (PresE.attempt (CalmP.handleCustomBroadcasts E τ ids K _ _)) (fun _ =>
                    CalmP.replyStage E τ ids K _ _ hh (hR h rest hdec)))

theorem CalmP.probeStartNext (hK : ∀ m, m ≠ .turnUndead → K m) : CalmP E τ ids K (Foca.probeStartNext E) := by
  unfold Foca.probeStartNext
  refine PresER.bind (CalmP.membersNext E τ ids K) (fun r hr => ?_)
  split
  · rename_i member
    have hm := hr member rfl
    refine PresE.bind (CalmP.startProbe E τ ids K member) (fun _ => ?_)
    refine PresE.getS_with (fun s eff hs => ?_)
    refine PresE.bind (CalmP.sendMessage E τ ids K _ _ hm.1.1.1 hs.1.2.1.2 (hK _ (by simp))) (fun _ => ?_)
    exact CalmP.emit E τ ids K _ rfl rfl rfl
  · exact PresE.pure _

/-- the previous probe round raised no suspicion: it was answered, or there was none -/
def RoundAnswered (s : State) : Prop := s.probe.validate = true → s.probe.takeFailed.1 = none

theorem Probe.clear_takeFailed (p : Probe) : p.clear.takeFailed.1 = none := by
  unfold Probe.takeFailed Probe.clear
  split <;> rfl

theorem probeSuspectFailed_none (c : Ctx) (h : c.s.probe.takeFailed.1 = none) :
    Foca.probeSuspectFailed E c = .ok () { c with s := { c.s with probe := c.s.probe.takeFailed.2 } } := by
  unfold Foca.probeSuspectFailed
  simp only [bind_run, getS_run, modS_run, h, pure_run]

theorem CalmP.probeTail (hK : ∀ m, m ≠ .turnUndead → K m) : CalmP E τ ids K (do
    Foca.probeStartNext E
    let s ← Foca.getS
    Foca.emit (.timer s.cfg.probePeriod (.probe s.token)) : M Unit) := by
  calm
  exact CalmP.probeStartNext E τ ids K hK

/-- `probe_random_member` after an answered round -/
theorem probeRandomMember_calm (hK : ∀ m, m ≠ .turnUndead → K m) (c : Ctx) (hc : CalmSent E τ ids K c.s c.eff) (hr : RoundAnswered c.s) :
    match Foca.probeRandomMember E c with
    | .ok _ c' => CalmSent E τ ids K c'.s c'.eff
    | .err _ c' => CalmSent E τ ids K c'.s c'.eff
    | .stuck _ => True := by
  unfold Foca.probeRandomMember
  simp only [bind_run, getS_run]
  by_cases hdbg : (E.debug && c.s.conn != Conn.connected) = true
  · simp [hdbg, panicAt]
  · simp only [hdbg, Bool.false_eq_true, if_false]
    by_cases hv : c.s.probe.validate = true
    · have htf := hr hv
      simp only [hv, Bool.not_true, Bool.false_eq_true, if_false, pure_run, bind_run]
      rw [probeSuspectFailed_none E c htf]
      simp only []
      have hc1 : CalmSent E τ ids K { c.s with probe := c.s.probe.takeFailed.2 } c.eff :=
        ⟨CalmInv.of_same E τ ids (s := c.s) rfl rfl rfl rfl rfl (Probe.takeFailed_number _) hc.1, hc.2⟩
      have := (CalmP.probeTail E τ ids K hK).run { c with s := { c.s with probe := c.s.probe.takeFailed.2 } } hc1
      revert this
      simp only [bind_run, getS_run]
      generalize Foca.probeStartNext E _ = r1
      intro this
      cases r1 with
      | stuck x => trivial
      | err e c1 => exact this
      | ok u c1 =>
        simp only at this ⊢
        generalize Foca.emit _ c1 = r2 at this ⊢
        cases r2 with
        | stuck x => trivial
        | err e c2 => exact this
        | ok u2 c2 => simpa using this
    · have hv' : c.s.probe.validate = false := by simpa using hv
      simp only [hv', Bool.not_false, if_true, bind_run, modS_run]
      have htf : ({ c.s with probe := c.s.probe.clear } : State).probe.takeFailed.1 = none := Probe.clear_takeFailed _
      rw [probeSuspectFailed_none E _ htf]
      simp only []
      have hc1 : CalmSent E τ ids K { c.s with probe := c.s.probe.clear.takeFailed.2 } c.eff :=
        ⟨CalmInv.of_same E τ ids (s := c.s) rfl rfl rfl rfl rfl (by rw [Probe.takeFailed_number]; rfl) hc.1, hc.2⟩
      have := (CalmP.probeTail E τ ids K hK).run { c with s := { c.s with probe := c.s.probe.clear.takeFailed.2 } } hc1
      revert this
      simp only [bind_run, getS_run]
      generalize Foca.probeStartNext E _ = r1
      intro this
      cases r1 with
      | stuck x => trivial
      | err e c1 => exact this
      | ok u c1 =>
        simp only at this ⊢
        generalize Foca.emit _ c1 = r2 at this ⊢
        cases r2 with
        | stuck x => trivial
        | err e c2 => exact this
        | ok u2 c2 => simpa [throwE] using this

theorem CalmP.pingReqLoop (hK : ∀ m, m ≠ .turnUndead → K m) (probed : Id) (ds : List Id) (hp : IdWire probed) (hds : ∀ d ∈ ds, IdWire d) :
    CalmP E τ ids K (Foca.pingReqLoop E probed ds) := by
  induction ds with
  | nil => unfold Foca.pingReqLoop; exact PresE.pure _
  | cons d rest ih =>
    unfold Foca.pingReqLoop
    refine PresE.getS_with (fun s eff hs => ?_)
    refine PresE.ite (PresE.panicAt _) ?_
    refine PresE.bind (CalmP.modS_same E τ ids K (fun _ => ⟨rfl, rfl, rfl, rfl, rfl, rfl⟩)) (fun _ => ?_)
    refine PresE.bind (CalmP.sendMessage E τ ids K _ _ (hds d (by simp)) ⟨hp, hs.1.2.1.2⟩ (hK _ (by simp))) (fun _ => ?_)
    exact ih (fun x hx => hds x (by simp [hx]))

theorem isActiveId_mem {ms : List Member} {id : Id} (h : isActiveId ms id = true) : ∃ m ∈ ms, m.id = id := by
  unfold isActiveId at h
  obtain ⟨m, hm, hb⟩ := List.any_eq_true.1 h
  exact ⟨m, hm, by simpa using (Bool.and_eq_true_iff.1 hb).1⟩

/-- every timer but the probe timer (which needs `RoundAnswered`) and the suspicion timeout (never scheduled by a
    calm instance) -/
theorem CalmP.handleTimer (hK : ∀ m, m ≠ .turnUndead → K m) (t : Timer) (hs2 : ∀ m inc tok, t ≠ .s2d m inc tok) (hpr : ∀ tok, t ≠ .probe tok) :
    CalmP E τ ids K (Foca.handleTimer E t) := by
  unfold Foca.handleTimer
  refine PresE.getS_with (fun s eff hs => ?_)
  cases t with
  | s2d m inc tok => exact absurd rfl (hs2 m inc tok)
  | probe tok => exact absurd rfl (hpr tok)
  | rm down =>
    refine PresE.modS_of (fun s' eff' hs' => ?_)
    obtain ⟨⟨hid, hinc, ha, hcc, hcu⟩, heff⟩ := hs'
    refine ⟨⟨hid, hinc, ?_, hcc, hcu⟩, heff⟩
    intro m hm
    simp only at hm
    rcases removeIfDown_spec s'.ms down with h | ⟨x, _, hp⟩
    · rw [h] at hm; exact ha m hm
    · exact ha m (hp.mem_iff.1 (List.mem_cons_of_mem _ hm))
  | indirect probed tok =>
    dsimp only
    split
    · exact PresE.pure _
    · refine PresE.bind (CalmP.modS_same E τ ids K (fun _ => ⟨rfl, rfl, rfl, rfl, rfl, rfl⟩)) (fun _ => ?_)
      split
      · exact PresE.pure _
      · split
        · exact PresE.pure _
        · split
          · exact PresE.pure _
          · rename_i hact
            have hact' : isActiveId s.ms probed = true := by simpa using hact
            obtain ⟨m, hm, hmid⟩ := isActiveId_mem hact'
            have hp : IdWire probed := by rw [← hmid]; exact (hs.1.2.2.1 m hm).1.1.1
            refine PresER.bind (CalmP.chooseLoop E τ ids K _ _ _) (fun chosen hch => ?_)
            refine CalmP.pingReqLoop E τ ids K hK probed _ hp (fun d hd => ?_)
            simp only [List.mem_map, List.mem_reverse] at hd
            obtain ⟨m', hm1, hm2⟩ := hd
            rw [← hm2]
            exact (hs.1.2.2.1 m' (hch m' hm1).1).1.1.1
  | pa tok =>
    dsimp only
    calm
    exact CalmP.chooseAndSend E τ ids K _ _ trivial (hK _ (by simp))
  | pg tok =>
    dsimp only
    calm
    exact CalmP.chooseAndSend E τ ids K _ _ trivial (hK _ (by simp))
  | pad tok =>
    dsimp only
    calm
    exact CalmP.announceToDown E τ ids K hK _

theorem CalmP.broadcastLoop (hK : ∀ m, m ≠ .turnUndead → K m) (ds : List Id) (hds : ∀ d ∈ ds, IdWire d) : CalmP E τ ids K (Foca.broadcastLoop E ds) := by
  induction ds with
  | nil => unfold Foca.broadcastLoop; exact PresE.pure _
  | cons d rest ih =>
    unfold Foca.broadcastLoop
    refine PresE.bind (CalmP.sendMessage E τ ids K _ _ (hds d (by simp)) trivial (hK _ (by simp))) (fun _ => ?_)
    calm
    exact ih (fun x hx => hds x (by simp [hx]))

theorem CalmP.broadcastApi (hK : ∀ m, m ≠ .turnUndead → K m) : CalmP E τ ids K (Foca.broadcastApi E) := by
  unfold Foca.broadcastApi
  refine PresE.getS_with (fun s eff hs => ?_)
  split
  · exact PresE.pure _
  · refine PresER.bind (CalmP.chooseLoop E τ ids K _ _ _) (fun chosen hch => ?_)
    refine CalmP.broadcastLoop E τ ids K hK _ (fun d hd => ?_)
    simp only [List.mem_map, List.mem_reverse] at hd
    obtain ⟨m, hm1, hm2⟩ := hd
    rw [← hm2]
    exact (hs.1.2.2.1 m (hch m hm1).1).1.1.1

theorem CalmP.addBroadcast (data : Bytes) : CalmP E τ ids K (Foca.addBroadcast E data) := by
  unfold Foca.addBroadcast
  refine PresE.getS_with (fun s eff hs => ?_)
  split
  · exact PresE.throwE _
  · rename_i hne
    have hlen : 1 ≤ data.length := by
      cases data with
      | nil => simp at hne
      | cons x xs => simp
    calm
    all_goals first
      | exact CalmP.setHst E τ ids K _
      | exact CalmP.addCustom E τ ids K _ _ _ hlen

theorem CalmP.setConfig (cfg : Config) : CalmP E τ ids K (Foca.setConfig cfg) := by
  unfold Foca.setConfig
  calm

/-- the calls of a calm history: Alive input about cluster identities, timers other than a suspicion timeout, a
    probe timer only after an answered round; nobody leaves or changes identity -/
def CalmOp (s : State) (op : Op) : Prop :=
  match op with
  | .applyMany us _ => ∀ u ∈ us, CalmM τ ids u
  | .data b => DataOk E (CalmM τ ids) (CalmH τ ids) b
  | .timer (.s2d _ _ _) => False
  | .timer (.probe tok) => tok = s.token → s.conn = .connected → RoundAnswered s
  | .timer _ => True
  | .announce d => IdWire d
  | .gossip => True
  | .broadcast => True
  | .addBroadcast _ => True
  | .setConfig _ => True
  | .leave => False
  | .changeIdentity _ _ => False
  | .reuseDown => False

/-- after a call: the calm invariant, for the state and everything emitted -/
def CalmPost {α} (r : R α) : Prop :=
  match r with
  | .ok _ c' => CalmSent E τ ids K c'.s c'.eff
  | .err _ c' => CalmSent E τ ids K c'.s c'.eff
  | .stuck _ => True

theorem CalmP.post {m : M Unit} (hm : CalmP E τ ids K m) (r : Res) (c : Ctx) (hc : CalmSent E τ ids K c.s c.eff) :
    CalmPost E τ ids K ((do m; pure r : M Res) c) :=
  (PresE.bind hm (fun _ => PresE.pure r)).run c hc

theorem probeTimer_calm (hK : ∀ m, m ≠ .turnUndead → K m) (tok : Nat) (c : Ctx) (hc : CalmSent E τ ids K c.s c.eff)
    (hr : tok = c.s.token → c.s.conn = .connected → RoundAnswered c.s) :
    CalmPost E τ ids K ((do Foca.handleTimer E (.probe tok); pure Res.ok : M Res) c) := by
  unfold Foca.handleTimer CalmPost
  simp only [bind_run, getS_run]
  by_cases htok : (tok == c.s.token) = true
  · simp only [htok, if_true]
    by_cases hcn : (c.s.conn != Conn.connected) = true
    · simp only [hcn, if_true, throwE]; exact hc
    · simp only [hcn, Bool.false_eq_true, if_false]
      have := probeRandomMember_calm E τ ids K hK c hc (hr (by simpa using htok) (by simpa using hcn))
      cases hr : Foca.probeRandomMember E c with
      | stuck x => trivial
      | err e c' => rw [hr] at this; exact this
      | ok u c' => rw [hr] at this; simpa [pure_run] using this
  · simp only [htok, Bool.false_eq_true, if_false, pure_run]; exact hc

theorem reply_not_turnUndead {src d : Id} {m r : Msg} (h : C18.replyOf src m = some (d, r)) : r ≠ .turnUndead := by
  cases m <;> simp [C18.replyOf] at h <;> obtain ⟨_, h2⟩ := h <;> subst h2 <;> simp

/-- **One calm call keeps the instance calm**: state and everything emitted. -/
theorem CalmSent.step (hK : ∀ m, m ≠ .turnUndead → K m) (hd : DistinctAddrs ids) (s : State) (op : Op) (orc : Oracle)
    (h : CalmInv E τ ids s) (hop : CalmOp E τ ids s op) :
    match Foca.step E s op orc with
    | .done s' eff _ _ => CalmSent E τ ids K s' eff
    | .stuck _ => True := by
  have h0 : CalmSent E τ ids K (Ctx.mk s [] orc).s (Ctx.mk s [] orc).eff := ⟨h, by intro e he; simp at he⟩
  have key : CalmPost E τ ids K (Foca.runOp E op ⟨s, [], orc⟩) := by
    cases op with
    | applyMany us b => exact CalmP.post E τ ids K (CalmP.applyMany E τ ids K hd us b hop) _ _ h0
    | data b => exact CalmP.post E τ ids K (CalmP.handleData E τ ids K hd b hop
      (fun _ _ _ _ _ _ hr => hK _ (reply_not_turnUndead hr))) _ _ h0
    | timer t =>
      cases t with
      | s2d m inc tok => exact hop.elim
      | probe tok => exact probeTimer_calm E τ ids K hK tok _ h0 hop
      | indirect p tok =>
        exact CalmP.post E τ ids K (CalmP.handleTimer E τ ids K hK (.indirect p tok) (by intros; simp) (by intros; simp)) _ _ h0
      | rm id =>
        exact CalmP.post E τ ids K (CalmP.handleTimer E τ ids K hK (.rm id) (by intros; simp) (by intros; simp)) _ _ h0
      | pa tok =>
        exact CalmP.post E τ ids K (CalmP.handleTimer E τ ids K hK (.pa tok) (by intros; simp) (by intros; simp)) _ _ h0
      | pg tok =>
        exact CalmP.post E τ ids K (CalmP.handleTimer E τ ids K hK (.pg tok) (by intros; simp) (by intros; simp)) _ _ h0
      | pad tok =>
        exact CalmP.post E τ ids K (CalmP.handleTimer E τ ids K hK (.pad tok) (by intros; simp) (by intros; simp)) _ _ h0
    | announce d => exact CalmP.post E τ ids K (CalmP.sendMessage E τ ids K d .announce hop trivial (hK _ (by simp))) _ _ h0
    | gossip => exact CalmP.post E τ ids K (CalmP.gossip E τ ids K hK) _ _ h0
    | broadcast => exact CalmP.post E τ ids K (CalmP.broadcastApi E τ ids K hK) _ _ h0
    | leave => exact hop.elim
    | addBroadcast b =>
      have := (PresE.bind (CalmP.addBroadcast E τ ids K b) (fun r => PresE.pure (Res.okBool r))).run _ h0
      exact this
    | changeIdentity i p => exact hop.elim
    | reuseDown => exact hop.elim
    | setConfig cfg => exact CalmP.post E τ ids K (CalmP.setConfig E τ ids K cfg) _ _ h0
  unfold Foca.step
  unfold CalmPost at key
  cases hr : Foca.runOp E op ⟨s, [], orc⟩ with
  | stuck x => trivial
  | ok r c => rw [hr] at key; exact key
  | err e c => rw [hr] at key; exact key

/-- **One calm delivery, by kind**: the datagrams sent while handling a calm datagram have only kinds that answer
    the kind delivered (`K` is any predicate containing the reply table's answer to it). -/
theorem CalmSent.deliver (hd : DistinctAddrs ids) (s : State) (data : Bytes) (orc : Oracle) (h : CalmInv E τ ids s)
    (hop : DataOk E (CalmM τ ids) (CalmH τ ids) data)
    (hR : ∀ h rest, E.codec.decHeader data = some (h, rest) → ∀ src d r, C18.replyOf src h.msg = some (d, r) → K r) :
    match Foca.step E s (.data data) orc with
    | .done s' eff _ _ => CalmSent E τ ids K s' eff
    | .stuck _ => True := by
  have h0 : CalmSent E τ ids K (Ctx.mk s [] orc).s (Ctx.mk s [] orc).eff := ⟨h, by intro e he; simp at he⟩
  have key : CalmPost E τ ids K (Foca.runOp E (.data data) ⟨s, [], orc⟩) :=
    CalmP.post E τ ids K (CalmP.handleData E τ ids K hd data hop hR) _ _ h0
  unfold Foca.step
  unfold CalmPost at key
  cases hr : Foca.runOp E (.data data) ⟨s, [], orc⟩ with
  | stuck x => trivial
  | ok r c => rw [hr] at key; exact key
  | err e c => rw [hr] at key; exact key

end
end Foca
