/-
  The view of third-party addresses across `apply_many`: an instance-level wrapper of the join-semilattice
  theorems of `View.lean` (C01). Updates about the instance's own address take the own-address path
  (`handle_self_update`, or stored as Down) and never touch another address; every other update is a join at its
  address.
-/
import FocaModel.Proofs.OwnInv
namespace Foca

/-- own address `a0`; well-formed records; the view at address `x` is `v` -/
def VInv (a0 x : Nat) (v : Option Nat) (s : State) : Prop :=
  s.id.addr = a0 ∧ AllWF s.ms ∧ viewKey s.ms x = v

section
variable {a0 x : Nat} {v : Option Nat}

theorem VInv.of_same {s s' : State} (h1 : s'.id.addr = s.id.addr) (h2 : s'.ms = s.ms) (h : VInv a0 x v s) : VInv a0 x v s' := by
  unfold VInv at *
  rw [h1, h2]; exact h

theorem VInv.modS {f : State → State} (h : ∀ s, (f s).id.addr = s.id.addr ∧ (f s).ms = s.ms) :
    Pres (VInv a0 x v) (Foca.modS f) :=
  Pres.modS_of (fun s hs => VInv.of_same (h s).1 (h s).2 hs)

theorem VInv.sendMessage (E : Env) (d : Id) (m : Msg) : Pres (VInv a0 x v) (Foca.sendMessage E d m) :=
  Pres.sendMessage E (fun s s' h hs => VInv.of_same (by rw [h]) (by rw [h]) hs) d m

theorem VInv.sendAll (E : Env) (msg : Msg) (ds : List Id) : Pres (VInv a0 x v) (Foca.sendAll E msg ds) := by
  induction ds with
  | nil => unfold Foca.sendAll; exact Pres.pure _
  | cons d rest ih => unfold Foca.sendAll; exact Pres.bind (VInv.sendMessage E d msg) (fun _ => ih)

theorem VInv.chooseLoop (w : Nat) (pick : Member → Bool) (l out : List Member) (seen : Nat) :
    Pres (VInv a0 x v) (Foca.chooseLoop w pick l out seen) := by
  constructor
  intro c hc
  have := chooseLoop_spec w pick l out seen c
  cases h : Foca.chooseLoop w pick l out seen c with
  | stuck x => trivial
  | err e c' => rw [h] at this; exact this.elim
  | ok a c' => rw [h] at this; simp only; rw [this.1]; exact hc

theorem VInv.gossip (E : Env) : Pres (VInv a0 x v) (Foca.gossip E) := by
  unfold Foca.gossip Foca.chooseAndSend
  pres
  · exact VInv.chooseLoop _ _ _ _ _
  · exact VInv.sendAll E _ _

theorem VInv.addUpdate (E : Env) (u : Member) : Pres (VInv a0 x v) (Foca.addUpdate E u) := by
  unfold Foca.addUpdate
  exact VInv.modS (fun _ => ⟨rfl, rfl⟩)

theorem VInv.reset : Pres (VInv a0 x v) Foca.reset := by
  unfold Foca.reset
  exact VInv.modS (fun _ => ⟨rfl, rfl⟩)

theorem VInv.changeIdentity_same (E : Env) (newId : Id) (pol : Policy) (hadr : newId.addr = a0) :
    Pres (VInv a0 x v) (Foca.changeIdentity E newId pol) := by
  unfold Foca.changeIdentity
  pres
  all_goals first
    | exact Pres.modS_of (fun s hs => ⟨hadr, hs.2.1, hs.2.2⟩)
    | exact VInv.reset
    | exact VInv.addUpdate E _
    | exact VInv.gossip E

theorem VInv.attemptRejoin (E : Env) : Pres (VInv a0 x v) (Foca.attemptRejoin E) := by
  unfold Foca.attemptRejoin
  refine Pres.getS_with (fun s hs => ?_)
  split
  · exact Pres.pure _
  · rename_i newId hren
    split
    · exact Pres.pure _
    · split
      · exact Pres.pure _
      · have : newId.addr = a0 := by rw [renew_addr hren]; exact hs.1
        exact Pres.bind (VInv.changeIdentity_same E newId s.policy this)
          (fun _ => Pres.bind (Pres.emit _) (fun _ => Pres.pure _))

theorem VInv.becomeUndead : Pres (VInv a0 x v) Foca.becomeUndead := by
  unfold Foca.becomeUndead
  pres
  exact VInv.modS (fun _ => ⟨rfl, rfl⟩)

theorem VInv.handleSelfUpdate (E : Env) (inc : Nat) (st : St) : Pres (VInv a0 x v) (Foca.handleSelfUpdate E inc st) := by
  unfold Foca.handleSelfUpdate
  pres
  all_goals first
    | exact VInv.attemptRejoin E
    | exact VInv.becomeUndead
    | exact VInv.gossip E
    | exact VInv.modS (fun _ => ⟨rfl, rfl⟩)

theorem VInv.handleApplySummary (E : Env) (sm : Summary) (u : Member) (b : Bool) :
    Pres (VInv a0 x v) (Foca.handleApplySummary E sm u b) :=
  handleApplySummary_pres (VInv.addUpdate E u) sm b

theorem VInv.adjustConnectionState (E : Env) : Pres (VInv a0 x v) (Foca.adjustConnectionState E) := by
  unfold Foca.adjustConnectionState Foca.becomeConnected Foca.becomeDisconnected
  pres
  all_goals exact VInv.modS (fun _ => ⟨rfl, rfl⟩)

end

/-! ### pre/post for successful runs -/

/-- after a successful run the state satisfies `Q` -/
def PostOk {α} (Q : State → Prop) (r : R α) : Prop :=
  match r with
  | .ok _ c' => Q c'.s
  | _ => True

structure TrOk {α} (Pre Post : State → Prop) (m : M α) : Prop where
  run : ∀ c, Pre c.s → PostOk Post (m c)

theorem TrOk.of_pres {α} {P : State → Prop} {m : M α} (h : Pres P m) : TrOk P P m :=
  ⟨fun c hc => by
    have := h.run c hc
    unfold PostOk
    cases hm : m c with
    | ok a c' => rw [hm] at this; exact this
    | err e c' => trivial
    | stuck x => trivial⟩

theorem TrOk.bind {α β} {A B C : State → Prop} {m : M α} {f : α → M β} (h1 : TrOk A B m) (h2 : ∀ a, TrOk B C (f a)) :
    TrOk A C (m >>= f) :=
  ⟨fun c hc => by
    have := h1.run c hc
    simp only [bind_run]
    unfold PostOk at *
    cases hm : m c with
    | stuck x => trivial
    | err e c' => trivial
    | ok a c' => rw [hm] at this; exact (h2 a).run c' this⟩

theorem TrOk.pure {α} {A B : State → Prop} (a : α) (h : ∀ s, A s → B s) : TrOk A B (pure a : M α) :=
  ⟨fun c hc => h c.s hc⟩

theorem TrOk.weaken {α} {A B C : State → Prop} {m : M α} (h : TrOk A B m) (hw : ∀ s, B s → C s) : TrOk A C m :=
  ⟨fun c hc => by
    have := h.run c hc
    unfold PostOk at *
    cases hm : m c with
    | ok a c' => rw [hm] at this; exact hw _ this
    | err e c' => trivial
    | stuck x => trivial⟩

theorem TrOk.getS_with {β} {A C : State → Prop} {f : State → M β} (h : ∀ s, A s → TrOk A C (f s)) :
    TrOk A C (Foca.getS >>= f) :=
  ⟨fun c hc => by simp only [bind_run, getS_run]; exact (h c.s hc).run c hc⟩

/-! ### one update, a batch -/

/-- the view at `x` after an update `u` was joined in -/
def joined (v : Option Nat) (x : Nat) (u : Member) : Option Nat :=
  if x = u.id.addr then omax v (some (key u)) else v

section
variable {a0 x : Nat} {v : Option Nat}

/-- `Members::apply`: a join at the update's address, nothing elsewhere -/
theorem VInv.membersApply (u : Member) (hu : u.WF) :
    TrOk (VInv a0 x v) (VInv a0 x (joined v x u)) (Foca.membersApply u) := by
  constructor
  intro c hc
  obtain ⟨h1, h2, h3⟩ := hc
  unfold PostOk Foca.membersApply
  cases h : Foca.applyExisting c.s.ms u (fun _ => true) with
  | some r =>
    obtain ⟨ms', sm⟩ := r
    simp only
    have hP : applyP c.s.ms u 0 = ms' := by unfold applyP; rw [h]
    refine ⟨h1, ?_, ?_⟩
    · rw [← hP]; exact applyP_wf _ _ _ h2 hu
    · rw [← hP, viewKey_applyP _ _ _ h2 hu, h3]; rfl
  | none =>
    simp only
    have hd := drawIdx_frame .choose (c.s.ms.length + 1) c
    cases hdr : Foca.drawIdx .choose (c.s.ms.length + 1) c with
    | stuck x => trivial
    | err e c1 => trivial
    | ok j c1 =>
      rw [hdr] at hd
      simp only at hd ⊢
      have hP : applyP c.s.ms u j = (applyNew c.s.ms u j).1 := by unfold applyP; rw [h]
      refine ⟨by rw [hd.1]; exact h1, ?_, ?_⟩
      · rw [← hP]; exact applyP_wf _ _ _ h2 hu
      · rw [← hP, viewKey_applyP _ _ _ h2 hu, h3]; rfl

theorem VInv.applyUpdate (E : Env) (u : Member) (b : Bool) (hu : u.WF) :
    TrOk (VInv a0 x v) (VInv a0 x (joined v x u)) (Foca.applyUpdate E u b) := by
  unfold Foca.applyUpdate
  refine TrOk.getS_with (fun s _ => ?_)
  split
  · exact ⟨fun _ _ => trivial⟩
  · exact TrOk.bind (VInv.membersApply u hu) (fun sm =>
      TrOk.bind (TrOk.of_pres (VInv.handleApplySummary E sm u b)) (fun _ => TrOk.pure _ (fun _ h => h)))

/-- one iteration of the `apply_many` loop, seen from a third-party address `x` -/
theorem VInv.applyOne (E : Env) (u : Member) (b : Bool) (hu : u.WF) (hx : x ≠ a0) :
    TrOk (VInv a0 x v) (VInv a0 x (joined v x u)) (Foca.applyOne E u b) := by
  unfold Foca.applyOne
  constructor
  intro c hc
  simp only [bind_run, getS_run]
  by_cases h1 : (u.id == c.s.id) = true
  · simp only [h1, if_true]
    have hadr : u.id.addr = a0 := by
      have : u.id = c.s.id := by simpa using h1
      rw [this]; exact hc.1
    have hj : joined v x u = v := by unfold joined; rw [hadr]; simp [hx]
    rw [hj]
    exact (TrOk.of_pres (VInv.handleSelfUpdate E u.inc u.st)).run c hc
  · simp only [h1, Bool.false_eq_true, if_false]
    by_cases h2 : (c.s.id.addr == u.id.addr) = true
    · simp only [h2, if_true]
      have hadr : u.id.addr = a0 := by
        have : c.s.id.addr = u.id.addr := by simpa using h2
        rw [← this]; exact hc.1
      have hj : joined v x u = v := by unfold joined; rw [hadr]; simp [hx]
      have hj2 : joined v x ⟨u.id, 0, .down⟩ = v := by unfold joined; simp only; rw [hadr]; simp [hx]
      rw [hj]
      have := (TrOk.bind (VInv.applyUpdate (a0 := a0) (x := x) (v := v) E ⟨u.id, 0, .down⟩ b (by simp [Member.WF]))
        (fun _ => TrOk.pure (A := VInv a0 x (joined v x ⟨u.id, 0, .down⟩)) (B := VInv a0 x v) () (fun s h => by rw [hj2] at h; exact h))).run c hc
      exact this
    · simp only [h2, Bool.false_eq_true, if_false]
      exact (TrOk.bind (VInv.applyUpdate E u b hu) (fun _ => TrOk.pure () (fun _ h => h))).run c hc

/-- the view a batch of updates has of address `x`, joined into `v` -/
theorem joined_fold (v : Option Nat) (x : Nat) (us : List Member) :
    us.foldl (fun w u => joined w x u) v = omax v (viewKey us x) := by
  induction us generalizing v with
  | nil => simp [viewKey]
  | cons u rest ih =>
    rw [List.foldl_cons, ih]
    unfold joined
    simp only [viewKey]
    by_cases h : x = u.id.addr
    · subst h; simp only [if_true]; rw [omax_assoc]
    · have : ¬ u.id.addr = x := fun e => h e.symm
      simp [h, this]

theorem VInv.applyLoop (E : Env) (b : Bool) (us : List Member) (hu : AllWF us) (hx : x ≠ a0) :
    TrOk (VInv a0 x v) (VInv a0 x (us.foldl (fun w u => joined w x u) v)) (Foca.applyLoop E b us) := by
  induction us generalizing v with
  | nil => unfold Foca.applyLoop; exact TrOk.pure _ (fun _ h => h)
  | cons u rest ih =>
    unfold Foca.applyLoop
    simp only [List.foldl_cons]
    exact TrOk.bind (VInv.applyOne E u b (hu u (by simp)) hx) (fun _ => ih (fun m hm => hu m (by simp [hm])))

/-- **`apply_many`, seen from any third-party address**: a successful call leaves there exactly the join of what
    was known and what the batch says — whatever else the batch contains (updates about the instance itself,
    about other identities of its address), whatever the RNG draws. -/
theorem VInv.applyMany (E : Env) (us : List Member) (b : Bool) (hu : AllWF us) (hx : x ≠ a0) :
    TrOk (VInv a0 x v) (VInv a0 x (omax v (viewKey us x))) (Foca.applyMany E us b) := by
  unfold Foca.applyMany
  rw [← joined_fold]
  exact TrOk.bind (VInv.applyLoop E b us hu hx) (fun _ => TrOk.of_pres (VInv.adjustConnectionState E))

end
end Foca
