/-
  What a datagram tells, the receiver lists: the update loop of `handle_data`, forwards (helpers for `Props/C02H.lean`).
-/
import FocaModel.Proofs.Rejoin
import FocaModel.Proofs.FanOutSelf
namespace Foca
open Foca

section
variable (E : Env)

/-- one iteration of the update loop lists the update's address — unless the update is about the instance's own
    address -/
theorem applyOne_lists (u : Member) (b : Bool) (c c' : Ctx) (hu : u.id.addr ≠ c.s.id.addr)
    (h : Foca.applyOne E u b c = .ok () c') : GenInv u.id.addr u.id.gen c'.s := by
  unfold Foca.applyOne at h
  simp only [bind_run, getS_run] at h
  have h1 : (u.id == c.s.id) = false := by
    apply beq_false_of_ne
    intro hx; exact hu (by rw [hx])
  have h2 : (c.s.id.addr == u.id.addr) = false := by
    apply beq_false_of_ne
    exact fun hx => hu hx.symm
  simp only [h1, h2, Bool.false_eq_true, ↓reduceIte, bind_run] at h
  cases hr : Foca.applyUpdate E u b c with
  | stuck x => rw [hr] at h; simp at h
  | err e c1 => rw [hr] at h; simp at h
  | ok act c1 =>
    rw [hr] at h
    simp only [pure_run, R.ok.injEq, true_and] at h
    rw [← h]
    exact applyUpdate_lists E u b c c1 act hr

/-- **The update loop lists what it is told**: after a successful `apply_many` loop every update that is not about
    the instance's own address has its address listed, at a generation at least the update's -/
theorem applyLoop_lists (b : Bool) (us : List Member) (c c' : Ctx) (h : Foca.applyLoop E b us c = .ok () c') :
    ∀ u ∈ us, u.id.addr ≠ c.s.id.addr → GenInv u.id.addr u.id.gen c'.s := by
  induction us generalizing c with
  | nil => intro u hu; simp at hu
  | cons x rest ih =>
    unfold Foca.applyLoop at h
    simp only [bind_run] at h
    cases h1 : Foca.applyOne E x b c with
    | stuck y => rw [h1] at h; simp at h
    | err e c1 => rw [h1] at h; simp at h
    | ok u1 c1 =>
      rw [h1] at h
      simp only at h
      have haddr : c1.s.id.addr = c.s.id.addr := by
        have := (AddrIs.applyOne E c.s.id.addr x b).run c rfl
        rw [h1] at this
        exact this
      intro u hu hne
      simp only [List.mem_cons] at hu
      rcases hu with rfl | hu
      · have g1 := applyOne_lists E u b c c1 hne h1
        have := ((GenInv.full (E := E) (a := u.id.addr) (g := u.id.gen)).applyLoop b rest (fun _ _ => trivial)).run c1 g1
        rw [h] at this
        exact this
      · exact ih c1 h u hu (by rw [haddr]; exact hne)

/-- **What a datagram tells, the receiver lists.** After a successful `handle_data` of a datagram addressed to the
    instance, from a sender it considers active: every member named in the update section — other than members of
    the instance's own address — has its address listed, at a generation at least the one named. -/
theorem handleData_lists_updates (data : Bytes) (c c' : Ctx) (hrun : Foca.handleData E data c = .ok () c')
    (h : Header) (rest : Bytes) (hdec : E.codec.decHeader data = some (h, rest)) (hdst : h.dst = c.s.id)
    (us : List Member) (tail : Bytes) (hparse : parseSection E h rest = some (us, tail)) :
    (∀ u ∈ us, u.id.addr ≠ c.s.id.addr → GenInv u.id.addr u.id.gen c'.s) ∨
      ∃ c1, Foca.applyUpdate E ⟨h.src, h.srcInc, .alive⟩ true c = .ok false c1 := by
  obtain ⟨h', rest', hdec', hcase⟩ := handleData_ok E data _ _ hrun
  rw [hdec] at hdec'
  simp only [Option.some.injEq, Prod.mk.injEq] at hdec'
  obtain ⟨rfl, rfl⟩ := hdec'
  rcases hcase with ⟨hacc, _⟩ | ⟨updates, tail', hparse', act, c1, hu, hcase⟩
  · exfalso
    simp [Gen.acceptPayload, hdst] at hacc
  · rw [hparse] at hparse'
    simp only [Option.some.injEq, Prod.mk.injEq] at hparse'
    obtain ⟨rfl, rfl⟩ := hparse'
    rcases hcase with ⟨hf, _⟩ | ⟨_, c2, cres, c3, hm, hcb, hrs⟩
    · right; subst hf; exact ⟨c1, hu⟩
    · left
      intro u hu' hne
      have F := GenInv.full (E := E) (a := u.id.addr) (g := u.id.gen)
      have haddr : c1.s.id.addr = c.s.id.addr := by
        have := ((AddrIs.base E c.s.id.addr).applyUpdate ⟨h.src, h.srcInc, .alive⟩ true trivial).run c rfl
        rw [hu] at this
        exact this
      unfold Foca.applyMany at hm
      simp only [bind_run] at hm
      cases hl : Foca.applyLoop E true us c1 with
      | stuck y => rw [hl] at hm; simp at hm
      | err e c1' => rw [hl] at hm; simp at hm
      | ok ul c1' =>
        rw [hl] at hm
        simp only at hm
        have g1 := applyLoop_lists E true us c1 c1' hl u hu' (by rw [haddr]; exact hne)
        have g2 := (F.toBase.adjustConnectionState).run c1' g1
        rw [hm] at g2
        have r3 := (Pres.attempt (F.toBase.handleCustomBroadcasts tail (some h.src))).run c2 g2
        rw [hcb] at r3
        have r4 := (F.replyStage h cres).run c3 r3
        rw [hrs] at r4
        exact r4

end
end Foca
