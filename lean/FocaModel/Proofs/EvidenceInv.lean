/-
  A probe round ends without suspicion only on genuine evidence, over whole histories: `NoEv m N` — while the probe
  targets `m` under number `N`, no evidence has been recorded — is kept by every call except the delivery of a
  datagram that is evidence for that round: an Ack numbered `N` from `m`, or a ForwardedAck numbered `N`.
-/
import FocaModel.Proofs.ComposeQ
import FocaModel.Proofs.Stage
namespace Foca

/-- leaves of an invariant over epoch, token, connection state, configuration and probe, from the few writes it
    can see -/
theorem LeavesQ.of_core (E : Env) {Q : State → Prop}
    (hQ : ∀ s s', s'.epoch = s.epoch → s'.token = s.token → s'.conn = s.conn → s'.cfg = s.cfg → s'.probe = s.probe → Q s → Q s')
    (probeQuiet : ∀ g : Probe → Probe, ProbeMono g → ProbeQuiet g → ∀ s, Q s → Q { s with probe := g s.probe })
    (reset : ∀ s, Q s → Q { s with conn := .disconnected, inc := 0, token := wrapAdd8 s.token, probe := s.probe.clear, epoch := s.epoch + 1 })
    (disconnect : ∀ s, Q s → Q { s with conn := .disconnected, token := wrapAdd8 s.token, probe := s.probe.clear, epoch := s.epoch + 1 })
    (undead : ∀ s, Q s → Q { s with conn := .undead, probe := s.probe.clear, token := wrapAdd8 s.token, epoch := s.epoch + 1 })
    (connect : ∀ s, s.conn = .disconnected → Q s → Q { s with conn := .connected })
    (setCfg : ∀ s cfg sc, Q s → Q { s with cfg := cfg, sendCap := sc }) :
    LeavesQ E (fun s _ => Q s) (fun _ => false) where
  plain := fun _ _ _ => rfl
  keep := fun f h => ⟨fun c hc => by
    simp only [modS_run]
    exact hQ c.s _ (h c.s).2.2.2.1 (h c.s).2.2.1 (h c.s).2.1 (h c.s).2.2.2.2.1 (h c.s).2.2.2.2.2 hc⟩
  probeQuiet := fun g hg hq => ⟨fun c hc => by simp only [modS_run]; exact probeQuiet g hg hq c.s hc⟩
  emitOther := fun _ _ => ⟨fun _ hc => hc⟩
  removeDown := fun _ => ⟨fun c hc => by simp only [modS_run]; exact hQ c.s _ rfl rfl rfl rfl rfl hc⟩
  membersNext := PresC.of_core hQ (fun _ _ _ _ _ => CoreIs.of_memOnly membersNext_only)
  sendMessage := fun d m => PresC.of_core hQ (fun _ _ _ _ _ => CoreIs.sendMessage E d m)
  applyUpdate := fun u b => PresC.of_core hQ (fun _ _ _ _ _ => CoreIs.applyUpdate E u b)
  applyExistingReport := fun u cond => PresC.of_core hQ (fun _ _ _ _ _ => CoreIs.applyExistingReport E u cond)
  reset := by
    unfold Foca.reset
    exact ⟨fun c hc => by simp only [modS_run]; exact reset c.s hc⟩
  becomeUndead := by
    unfold Foca.becomeUndead
    refine PresC.bind ⟨fun c hc => by simp only [modS_run]; exact undead c.s hc⟩ (fun _ => ⟨fun _ hc => hc⟩)
  adjustConnectionState := by
    unfold Foca.adjustConnectionState
    refine PresC.getS_at (fun s0 eff0 h0 => ?_)
    cases hcn : s0.conn with
    | undead => exact PresCAt.of_presC h0 (PresC.pure _)
    | disconnected =>
      simp only []
      refine PresCAt.ite (fun _ => ?_) (fun _ => PresCAt.of_presC h0 (PresC.pure _))
      unfold Foca.becomeConnected
      refine PresCAt.getS_bind ?_
      refine PresCAt.ite (fun _ => PresCAt.panicAt _) (fun _ => ?_)
      refine PresCAt.modS_bind (PresCAt.of_presC (connect s0 hcn h0) ?_)
      presc
      all_goals exact ⟨fun _ hc => hc⟩
    | connected =>
      simp only []
      refine PresCAt.ite (fun _ => ?_) (fun _ => PresCAt.of_presC h0 (PresC.pure _))
      unfold Foca.becomeDisconnected
      refine PresCAt.of_presC h0 ?_
      presc
      · exact ⟨fun c hc => by simp only [modS_run]; exact disconnect c.s hc⟩
      · exact ⟨fun _ hc => hc⟩
  setConfig := fun cfg => by
    unfold Foca.setConfig
    presc
    exact ⟨fun c hc => by simp only [modS_run]; exact setCfg c.s _ _ hc⟩


/-- while the probe targets `m` under number `N`: neither the direct Ack nor any forwarded Ack has been recorded -/
def NoEv (m : Member) (N : Nat) (s : State) : Prop :=
  s.probe.direct = some m → s.probe.number = N → s.probe.directAckOk = false ∧ s.probe.indirectAckCount = 0

section
variable (E : Env) (m : Member) (N : Nat)

theorem NoEv.leaves : LeavesQ E (fun s _ => NoEv m N s) (fun _ => false) := by
  refine LeavesQ.of_core E ?_ ?_ ?_ ?_ ?_ ?_ ?_
  · intro s s' _ _ _ _ h5 h
    unfold NoEv at *
    rw [h5]; exact h
  · intro g hg hq s h
    unfold NoEv at *
    simp only
    intro hd hn
    obtain ⟨hnum, hfl⟩ := hq s.probe
    rcases hg s.probe with hnone | ⟨hsame, _⟩
    · rw [hnone] at hd; cases hd
    · have h0 := h (by rw [← hsame]; exact hd) (by rw [← hnum]; exact hn)
      rcases hfl with ⟨h1, h2⟩ | h1
      · exact ⟨by rw [h1]; exact h0.1, by rw [h2]; exact h0.2⟩
      · rw [h1] at hd; cases hd
  · intro s _ hd _; simp [Probe.clear] at hd
  · intro s _ hd _; simp [Probe.clear] at hd
  · intro s _ hd _; simp [Probe.clear] at hd
  · intro s _ h; exact h
  · intro s cfg sc h; exact h

/-- starting a round resets the evidence -/
theorem NoEv.start (m' : Member) : PresC (fun s _ => NoEv m N s) (modS fun s => { s with probe := s.probe.start m' }) :=
  ⟨fun c _ => by
    simp only [modS_run]
    intro _ _
    exact ⟨rfl, rfl⟩⟩

/-- the header of a datagram that is no evidence for the round of `m` under `N` -/
def NotEvH (h : Header) : Prop := ¬ (h.msg = .ack N ∧ h.src = m.id) ∧ ∀ o, h.msg ≠ .forwardedAck o N

theorem NoEv.recvOk (h : Header) (hne : NotEvH m N h) : RecvOk (fun s _ => NoEv m N s) h := by
  refine ⟨fun n hn => ⟨fun c hc => ?_⟩, fun o n hn => ⟨fun c hc => ?_⟩⟩
  · simp only [modS_run]
    unfold NoEv at *
    simp only
    unfold Probe.receiveAck
    split
    · rename_i hcond
      intro hd hnum
      exfalso
      simp only at hd hnum
      have hc1 := (Bool.and_eq_true_iff.1 hcond).1
      have hc2 := (Bool.and_eq_true_iff.1 hcond).2
      have hnN : n = N := by rw [← hnum]; simpa using hc1
      have hsrc : h.src = m.id := by
        unfold Probe.isProbing at hc2
        rw [hd] at hc2
        simp only at hc2
        exact (by simpa using hc2 : m.id = h.src).symm
      exact hne.1 ⟨by rw [hn, hnN], hsrc⟩
    · exact hc
  · simp only [modS_run]
    unfold NoEv at *
    simp only
    unfold Probe.receiveIndirectAck
    split
    · exact hc
    · rename_i hnum'
      split
      · intro _ hnum
        exfalso
        simp only at hnum
        have : n = N := by
          have h1 : c.s.probe.number = n := by simpa using hnum'
          rw [← h1]; exact hnum
        exact hne.2 o (by rw [hn, this])
      · exact hc

/-- the calls that bring no evidence for the round of `m` under `N` -/
def NotEv (op : Op) : Prop := ∀ b, op = .data b → ∀ h rest, E.codec.decHeader b = some (h, rest) → NotEvH m N h

/-- **One call without evidence records none**: any call — any input, timer (a probe timer too: starting a round
    resets the evidence), API call, RNG draws — other than the delivery of an Ack numbered `N` from `m` or of a
    ForwardedAck numbered `N` keeps `NoEv m N`. -/
theorem NoEv.step (s : State) (op : Op) (orc : Oracle) (h : NoEv m N s) (hop : NotEv E m N op) :
    match Foca.step E s op orc with
    | .done s' _ _ _ => NoEv m N s'
    | .stuck _ => True := by
  have L := NoEv.leaves E m N
  have hrun := (L.runOp op
    (fun t _ hl => L.loopBranch t hl (NoEv.start m N) (fun _ _ _ => ⟨fun _ hc => hc⟩))
    (fun b hb hd rest hdec => NoEv.recvOk m N hd (hop b hb hd rest hdec))).run ⟨s, [], orc⟩ h
  unfold Foca.step
  cases hr : Foca.runOp E op ⟨s, [], orc⟩ with
  | stuck x => trivial
  | ok r c => rw [hr] at hrun; exact hrun
  | err e c => rw [hr] at hrun; exact hrun

/-- while the probe targets `m` under number `N`, the round counts as answered -/
def HasEv (m : Member) (N : Nat) (s : State) : Prop :=
  s.probe.direct = some m → s.probe.number = N → s.probe.succeeded = true

theorem HasEv.leaves : LeavesQ E (fun s _ => HasEv m N s) (fun _ => false) := by
  refine LeavesQ.of_core E ?_ ?_ ?_ ?_ ?_ ?_ ?_
  · intro s s' _ _ _ _ h5 h
    unfold HasEv at *
    rw [h5]; exact h
  · intro g hg hq s h
    unfold HasEv at *
    simp only
    intro hd hn
    obtain ⟨hnum, hfl⟩ := hq s.probe
    rcases hg s.probe with hnone | ⟨hsame, _⟩
    · rw [hnone] at hd; cases hd
    · have h0 := h (by rw [← hsame]; exact hd) (by rw [← hnum]; exact hn)
      rcases hfl with ⟨h1, h2⟩ | h1
      · unfold Probe.succeeded at *
        rw [h1, h2]; exact h0
      · rw [h1] at hd; cases hd
  · intro s _ hd _; simp [Probe.clear] at hd
  · intro s _ hd _; simp [Probe.clear] at hd
  · intro s _ hd _; simp [Probe.clear] at hd
  · intro s _ h; exact h
  · intro s cfg sc h; exact h

/-- the two evidence writes only ever add evidence -/
theorem HasEv.recvOk (h : Header) : RecvOk (fun s _ => HasEv m N s) h := by
  refine ⟨fun n _ => ⟨fun c hc => ?_⟩, fun o n _ => ⟨fun c hc => ?_⟩⟩
  · simp only [modS_run]
    unfold HasEv at *
    simp only
    unfold Probe.receiveAck
    split
    · intro _ _
      simp [Probe.succeeded, Gen.probeSucceeded]
    · exact hc
  · simp only [modS_run]
    unfold HasEv at *
    simp only
    unfold Probe.receiveIndirectAck
    split
    · exact hc
    · split
      · intro _ _
        simp [Probe.succeeded, Gen.probeSucceeded]
      · exact hc

/-- **Once answered, a round stays answered** until the next probe timer: any call other than the delivery of a
    probe timer — any datagram, stale or contradicting gossip, duplicate Acks, other timers, API calls — keeps
    `HasEv m N`. -/
theorem HasEv.step (s : State) (op : Op) (orc : Oracle) (h : HasEv m N s) (hop : ∀ tok, op ≠ .timer (.probe tok)) :
    match Foca.step E s op orc with
    | .done s' _ _ _ => HasEv m N s'
    | .stuck _ => True := by
  have L := HasEv.leaves E m N
  have hrun := (L.runOp op (fun t ht hl => by
    by_cases hp : t.loopNo = some 0
    · cases t with
      | probe tok => exact absurd ht (hop tok)
      | pa tok => simp [Timer.loopNo] at hp
      | pad tok => simp [Timer.loopNo] at hp
      | pg tok => simp [Timer.loopNo] at hp
      | indirect p tok => simp [Timer.isLoop] at hl
      | s2d m inc tok => simp [Timer.isLoop] at hl
      | rm m => simp [Timer.isLoop] at hl
    · exact L.periodicBranch t hl hp (fun _ _ _ => ⟨fun _ hc => hc⟩))
    (fun b _ hd _ _ => HasEv.recvOk m N hd)).run ⟨s, [], orc⟩ h
  unfold Foca.step
  cases hr : Foca.runOp E op ⟨s, [], orc⟩ with
  | stuck x => trivial
  | ok r c => rw [hr] at hrun; exact hrun
  | err e c => rw [hr] at hrun; exact hrun

end
end Foca
