/-
  In a fault-free cluster views only grow: once an instance lists a member it lists it for good (nobody is ever
  declared down, so nothing is ever forgotten) — the safety half of "full discovery".
-/
import FocaModel.Proofs.CalmNet
import FocaModel.Proofs.GenInv
namespace Foca

section
variable (E : Env) (ids : List Id)

/-- one step of a fault-free run: the three ways `CalmReach` grows, as a relation between clusters -/
inductive CalmStep : Net → Net → Prop
  | deliver {n : Net} (i : Nat) (s s' : State) (d : Id) (b : Bytes) (orc : Oracle) (eff : List Effect) (r : Res)
      (left : Oracle) : n.nodes[i]? = some s → (d, b) ∈ n.wire →
      Foca.step E s (.data b) orc = .done s' eff r left → CalmStep n (n.after E i s' eff)
  | fire {n : Net} (i : Nat) (s s' : State) (t : Timer) (orc : Oracle) (eff : List Effect) (r : Res)
      (left : Oracle) : n.nodes[i]? = some s → (i, t) ∈ n.timers →
      (∀ tok, t = .probe tok → tok = s.token → s.conn = .connected → RoundAnswered s) →
      Foca.step E s (.timer t) orc = .done s' eff r left → CalmStep n (n.after E i s' eff)
  | api {n : Net} (i : Nat) (s s' : State) (op : Op) (orc : Oracle) (eff : List Effect) (r : Res)
      (left : Oracle) : n.nodes[i]? = some s → op.isCalmApi = true →
      (∀ d, op = .announce d → IdWire d) →
      Foca.step E s op orc = .done s' eff r left → CalmStep n (n.after E i s' eff)

/-- any number of such steps -/
inductive CalmRun : Net → Net → Prop
  | refl (n : Net) : CalmRun n n
  | step {n n1 n2 : Net} : CalmRun n n1 → CalmStep E n1 n2 → CalmRun n n2

theorem CalmReach.step {n n' : Net} (h : CalmReach E ids n) (hs : CalmStep E n n') : CalmReach E ids n' := by
  cases hs with
  | deliver i s s' d b orc eff r left h1 h2 h3 => exact CalmReach.deliver i s s' d b orc eff r left h h1 h2 h3
  | fire i s s' t orc eff r left h1 h2 h3 h4 => exact CalmReach.fire i s s' t orc eff r left h h1 h2 h3 h4
  | api i s s' op orc eff r left h1 h2 h3 h4 => exact CalmReach.api i s s' op orc eff r left h h1 h2 h3 h4

theorem CalmReach.run {n n' : Net} (h : CalmReach E ids n) (hr : CalmRun E n n') : CalmReach E ids n' := by
  induction hr with
  | refl => exact h
  | step _ hs ih => exact CalmReach.step E ids ih hs

theorem getElem?_set_cases {α} (l : List α) (j i : Nat) (x y : α) (h : (l.set j x)[i]? = some y) :
    (j = i ∧ y = x) ∨ l[i]? = some y := by
  rw [List.getElem?_set] at h
  split at h
  · split at h
    · left; rename_i hji _; exact ⟨hji, by simpa using h.symm⟩
    · simp at h
  · right; exact h

/-- one step: the node with index `i` is still there, and every address it lists at generation `≥ g` is still listed
    at generation `≥ g` -/
theorem CalmStep.keeps_listed {n n' : Net} (hinv : CalmNet E ids n) (hs : CalmStep E n n') (i : Nat) (s : State)
    (hi : n.nodes[i]? = some s) :
    ∃ s', n'.nodes[i]? = some s' ∧ ∀ a g, GenInv a g s → GenInv a g s' := by
  have key : ∀ (j : Nat) (s1 s1' : State) (op : Op) (orc : Oracle) (eff : List Effect) (r : Res) (left : Oracle),
      n.nodes[j]? = some s1 → Op.forgets op = false → Foca.step E s1 op orc = .done s1' eff r left →
      ∃ s', (n.after E j s1' eff).nodes[i]? = some s' ∧ ∀ a g, GenInv a g s → GenInv a g s' := by
    intro j s1 s1' op orc eff r left hj hop hstep
    simp only [Net.after]
    by_cases hji : j = i
    · subst hji
      have hlt : j < n.nodes.length := by
        rcases List.getElem?_eq_some_iff.1 hj with ⟨h, _⟩; exact h
      refine ⟨s1', by rw [List.getElem?_set]; simp [hlt], fun a g hg => ?_⟩
      have hs1 : s1 = s := by rw [hj] at hi; exact Option.some.inj hi
      have := GenInv.step E a g s1 op orc (by rw [hs1]; exact hg) hop
      rw [hstep] at this
      exact this
    · exact ⟨s, by rw [List.getElem?_set]; simp [hji]; exact hi, fun _ _ hg => hg⟩
  cases hs with
  | deliver j s1 s1' d b orc eff r left h1 h2 h3 => exact key j s1 s1' _ orc eff r left h1 rfl h3
  | fire j s1 s1' t orc eff r left h1 h2 h3 h4 =>
    refine key j s1 s1' _ orc eff r left h1 ?_ h4
    have := (hinv.2.2 j t h2).2
    cases t with
    | rm id => exact absurd rfl (this id)
    | s2d m inc tok => rfl
    | probe tok => rfl
    | indirect p tok => rfl
    | pa tok => rfl
    | pg tok => rfl
    | pad tok => rfl
  | api j s1 s1' op orc eff r left h1 h2 h3 h4 =>
    refine key j s1 s1' _ orc eff r left h1 ?_ h4
    cases op <;> simp [Op.isCalmApi] at h2 <;> rfl

end
end Foca
