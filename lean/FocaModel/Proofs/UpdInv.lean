/-
  Whole-history invariant of the update backlog: at most one pending cluster update per address.
-/
import FocaModel.Proofs.Frames
import FocaModel.Proofs.SendUpd
namespace Foca

/-- leaf obligations for anything that ignores membership: only sending, `addUpdate` and the two kinds
    of plain writes remain -/
theorem Leaves.of_ignoresMembership {E : Env} {P : State → Prop} (hP : IgnoresMembership P)
    (sendMessage : ∀ d m, Pres P (Foca.sendMessage E d m))
    (addUpdate : ∀ m, Pres P (Foca.addUpdate E m))
    (modCtl : ∀ f, CtlOnly f → Pres P (modS f))
    (modCustom : ∀ f, CustomOnly f → Pres P (modS f)) : Leaves E P where
  membersApply := fun u => Pres.of_onlyMembership hP (membersApply_only u)
  membersApplyExistingIf := fun u cond => Pres.of_onlyMembership hP (membersApplyExistingIf_only u cond)
  membersNext := Pres.of_onlyMembership hP membersNext_only
  removeDown := fun id => Pres.modS_of (fun s hs => hP _ _ (by simp only [OnlyMembership]) hs)
  sendMessage := sendMessage
  addUpdate := addUpdate
  modCtl := modCtl
  setHst := (customLeaves_of (E := E) modCustom).1
  addCustom := (customLeaves_of (E := E) modCustom).2

/-- at most one pending cluster update per address -/
def UpdInv (s : State) : Prop := (bkeys s.updates).Nodup

theorem addOrReplace_keys (b : List (Entry Nat)) (addr : Nat) (d : Bytes) (maxTx : Nat) (hn : (bkeys b).Nodup) :
    (bkeys (addOrReplace b Gen.addrInvalidates addr d maxTx)).Nodup := by
  unfold addOrReplace bkeys
  rw [List.map_append, List.nodup_append]
  refine ⟨(hn.sublist ((List.filter_sublist).map _)), by simp, ?_⟩
  intro a ha b' hb
  simp at hb
  simp at ha
  obtain ⟨e, he, hea⟩ := ha
  intro h
  have : e.key ≠ addr := by
    have := he.2
    simp [Gen.addrInvalidates] at this
    exact fun h => this h.symm
  exact this (by rw [hea, h, hb])

theorem UpdInv.leaves (E : Env) : Leaves E UpdInv :=
  Leaves.of_ignoresMembership
    (by intro s s' h hs; unfold UpdInv at *; rw [h]; exact hs)
    (fun d m => ⟨fun c hc => by
      have h1 := sendMessage_upd E d m c
      have h2 := sendMessage_spec E d m c
      cases h : Foca.sendMessage E d m c with
      | stuck x => trivial
      | err e c' => rw [h] at h2; simp only at h2 ⊢; rw [h2.2.1]; exact hc
      | ok a c' =>
        rw [h] at h1
        simp only at h1 ⊢
        rcases h1 with h1 | ⟨sp, picks, r, hf, h1⟩
        · unfold UpdInv; rw [h1]; exact hc
        · unfold UpdInv; rw [h1]; exact fill_keys hf hc⟩)
    (fun m => by
      unfold Foca.addUpdate
      exact Pres.modS_of (fun s hs => addOrReplace_keys _ _ _ _ hs))
    (fun f h => Pres.modS_of (fun s hs => by unfold UpdInv at *; rw [(h s).2.2.1]; exact hs))
    (fun f h => Pres.modS_of (fun s hs => by unfold UpdInv at *; rw [(h s).2.2.1]; exact hs))

/-- In every reachable state — any history of public calls, any inputs, any RNG — the update backlog holds
    at most one pending update per address. -/
theorem UpdInv.reachable (E : Env) {s : State} (h : Reachable E s) : UpdInv s := (UpdInv.leaves E).reachable (by intro id pol cfg; simp [UpdInv, bkeys, State.init]) h

end Foca
