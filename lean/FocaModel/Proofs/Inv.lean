/-
  Invariants over *all* operations: a predicate on states preserved by every function of the model,
  hence by `step`, hence true in every reachable state (induction over the history).
-/
import FocaModel.Proofs.SendAll
import FocaModel.Proofs.View
namespace Foca

/-- `m` preserves `P`: from a state satisfying `P`, whatever the oracle, the state after `m` — also
    after a call that returned an error — satisfies `P`. -/
structure Pres {α} (P : State → Prop) (m : M α) : Prop where
  run : ∀ c, P c.s → match m c with
    | .ok _ c' => P c'.s
    | .err _ c' => P c'.s
    | .stuck _ => True

variable {P : State → Prop}

theorem Pres.pure {α} (a : α) : Pres P (pure a : M α) := ⟨fun _ h => h⟩

theorem Pres.bind {α β} {m : M α} {f : α → M β} (hm : Pres P m) (hf : ∀ a, Pres P (f a)) : Pres P (m >>= f) := by
  constructor
  intro c hc
  have := hm.run c hc
  simp only [bind_run]
  cases hmc : m c with
  | stuck x => trivial
  | err e c' => rw [hmc] at this; exact this
  | ok a c' =>
    rw [hmc] at this
    exact (hf a).run c' this

theorem Pres.getS : Pres P getS := ⟨fun _ h => h⟩
theorem Pres.emit (e : Effect) : Pres P (emit e) := ⟨fun _ h => h⟩
theorem Pres.throwE {α} (e : ErrKind) : Pres P (throwE e : M α) := ⟨fun _ h => h⟩
theorem Pres.panicAt {α} (p : PanicSite) : Pres P (panicAt p : M α) := ⟨fun _ _ => trivial⟩
theorem Pres.badOracle {α} (w : String) : Pres P (badOracle w : M α) := ⟨fun _ _ => trivial⟩

theorem Pres.ite {α} {c : Prop} [Decidable c] {a b : M α} (ha : Pres P a) (hb : Pres P b) :
    Pres P (if c then a else b) := by
  split <;> assumption

theorem Pres.drawIdx (k : DrawKind) (n : Nat) : Pres P (drawIdx k n) := by
  constructor
  intro c hc
  have := drawIdx_frame k n c
  cases h : Foca.drawIdx k n c with
  | stuck x => trivial
  | err e c' => rw [h] at this; simp only at this ⊢; rw [this.1]; exact hc
  | ok a c' => rw [h] at this; simp only at this ⊢; rw [this.1]; exact hc

theorem Pres.nextPick : Pres P nextPick := by
  constructor
  intro c hc
  have := nextPick_spec c
  cases h : Foca.nextPick c with
  | stuck x => trivial
  | err e c' => rw [h] at this; exact this.elim
  | ok a c' => rw [h] at this; simp only at this ⊢; rw [this.1]; exact hc

theorem Pres.attempt {m : M Unit} (hm : Pres P m) : Pres P (attempt m) := by
  constructor
  intro c hc
  have := hm.run c hc
  unfold Foca.attempt
  cases h : m c with
  | stuck x => trivial
  | err e c' => rw [h] at this; exact this
  | ok a c' => rw [h] at this; exact this

/-- a state change that `P` cannot see -/
theorem Pres.modS_of {f : State → State} (h : ∀ s, P s → P (f s)) : Pres P (modS f) := ⟨fun c hc => h c.s hc⟩

theorem Pres.setS_of {s' : State} (h : P s') : Pres P (setS s') := ⟨fun _ _ => h⟩

/-- functions that only touch the backlogs (sending) preserve anything that ignores the backlogs -/
def IgnoresBacklogs (P : State → Prop) : Prop := ∀ s s', OnlyBacklogs s s' → P s → P s'

theorem Pres.sendMessage (E : Env) (hP : IgnoresBacklogs P) (d : Id) (m : Msg) : Pres P (sendMessage E d m) := by
  constructor
  intro c hc
  have := sendMessage_spec E d m c
  cases h : Foca.sendMessage E d m c with
  | stuck x => trivial
  | err e c' => rw [h] at this; simp only; rw [this.2.1]; exact hc
  | ok a c' => rw [h] at this; exact hP _ _ this.1 hc

end Foca

namespace Foca

/-- decomposes a `do` block into obligations about its primitive steps -/
macro "pres_step" : tactic => `(tactic| first
  | exact Pres.pure _
  | exact Pres.getS
  | exact Pres.emit _
  | exact Pres.throwE _
  | exact Pres.panicAt _
  | exact Pres.badOracle _
  | exact Pres.drawIdx _ _
  | exact Pres.nextPick
  | with_reducible apply Pres.bind
  | with_reducible apply Pres.ite
  | (intro _; try dsimp only)
  | split)

macro "pres" : tactic => `(tactic| repeat' pres_step)

/-- the membership bookkeeping invariant: one record per address, exact active counter -/
def MsInv (s : State) : Prop := (s.ms.map (·.id.addr)).Nodup ∧ s.numActive = countActive s.ms

theorem MsInv.ignoresBacklogs : IgnoresBacklogs MsInv := by
  intro s s' h hs
  unfold OnlyBacklogs at h
  rw [h]
  exact hs

theorem MsInv.of_same {s s' : State} (h1 : s'.ms = s.ms) (h2 : s'.numActive = s.numActive) (h : MsInv s) : MsInv s' := by
  unfold MsInv at *
  rw [h1, h2]
  exact h

end Foca

namespace Foca

/-! ### knowing the current state: `PresAt`

  `Pres` forgets which state a `getS` returned.  Where a function computes its write from the state it read
  (renewing the identity it read, bumping the incarnation it read), `PresAt P s0 m` keeps the fact that `m`
  starts in exactly `s0`. -/

structure PresAt {α} (P : State → Prop) (s0 : State) (m : M α) : Prop where
  run : ∀ c, c.s = s0 → P s0 → match m c with
    | .ok _ c' => P c'.s
    | .err _ c' => P c'.s
    | .stuck _ => True

variable {P : State → Prop} {s0 : State}

theorem Pres.getS_bind {β} {f : State → M β} (h : ∀ s, PresAt P s (f s)) : Pres P (Foca.getS >>= f) :=
  ⟨fun c hc => by simp only [bind_run, getS_run]; exact (h c.s).run c rfl hc⟩

theorem PresAt.getS_bind {β} {f : State → M β} (h : PresAt P s0 (f s0)) : PresAt P s0 (Foca.getS >>= f) :=
  ⟨fun c hc hp => by simp only [bind_run, getS_run]; rw [hc]; exact h.run c hc hp⟩

theorem PresAt.of_pres {α} {m : M α} (h : Pres P m) : PresAt P s0 m :=
  ⟨fun c hc hp => h.run c (by rw [hc]; exact hp)⟩

theorem PresAt.assume {α} {m : M α} (h : P s0 → PresAt P s0 m) : PresAt P s0 m :=
  ⟨fun c hc hp => (h hp).run c hc hp⟩

theorem PresAt.bind {α β} {m : M α} {f : α → M β} (hm : PresAt P s0 m) (hf : ∀ a, Pres P (f a)) :
    PresAt P s0 (m >>= f) := by
  constructor
  intro c hc hp
  have := hm.run c hc hp
  simp only [bind_run]
  cases hmc : m c with
  | stuck x => trivial
  | err e c' => rw [hmc] at this; exact this
  | ok a c' =>
    rw [hmc] at this
    exact (hf a).run c' this

theorem PresAt.dite {α} {c : Prop} [Decidable c] {a b : M α} (ha : c → PresAt P s0 a) (hb : ¬ c → PresAt P s0 b) :
    PresAt P s0 (if c then a else b) := by
  split
  · exact ha ‹_›
  · exact hb ‹_›

theorem PresAt.modS {f : State → State} (h : P s0 → P (f s0)) : PresAt P s0 (Foca.modS f) :=
  ⟨fun c hc hp => by simp only [modS_run]; rw [hc]; exact h hp⟩

/-- a write after which a *stronger* invariant `P2` holds and is kept by the rest -/
theorem PresAt.switch {β} {P2 : State → Prop} {f : State → State} {rest : M β}
    (h1 : P s0 → P2 (f s0)) (h2 : Pres P2 rest) (h3 : ∀ s, P2 s → P s) :
    PresAt P s0 (Foca.modS f >>= fun _ => rest) := by
  constructor
  intro c hc hp
  simp only [bind_run, modS_run]
  have := h2.run { c with s := f c.s } (by simp only; rw [hc]; exact h1 hp)
  cases hr : rest { c with s := f c.s } with
  | stuck x => trivial
  | err e c' => rw [hr] at this; exact h3 _ this
  | ok a c' => rw [hr] at this; exact h3 _ this

end Foca

namespace Foca

variable {P : State → Prop}

/-- like `getS_bind`, keeping only that the invariant holds in the state that was read -/
theorem Pres.getS_with {β} {f : State → M β} (h : ∀ s, P s → Pres P (f s)) : Pres P (Foca.getS >>= f) :=
  ⟨fun c hc => by simp only [bind_run, getS_run]; exact (h c.s hc).run c hc⟩

/-- `m` preserves `P` and its result satisfies `Q` -/
structure PresR {α} (P : State → Prop) (Q : α → Prop) (m : M α) : Prop where
  run : ∀ c, P c.s → match m c with
    | .ok a c' => P c'.s ∧ Q a
    | .err _ c' => P c'.s
    | .stuck _ => True

theorem PresR.bind {α β} {Q : α → Prop} {m : M α} {f : α → M β} (hm : PresR P Q m) (hf : ∀ a, Q a → Pres P (f a)) :
    Pres P (m >>= f) := by
  constructor
  intro c hc
  have := hm.run c hc
  simp only [bind_run]
  cases hmc : m c with
  | stuck x => trivial
  | err e c' => rw [hmc] at this; exact this
  | ok a c' =>
    rw [hmc] at this
    exact (hf a this.2).run c' this.1

theorem Pres.toR {α} {m : M α} (h : Pres P m) : PresR P (fun _ => True) m :=
  ⟨fun c hc => by
    have := h.run c hc
    cases hm : m c with
    | stuck x => trivial
    | err e c' => rw [hm] at this; exact this
    | ok a c' => rw [hm] at this; exact ⟨this, trivial⟩⟩

/-- a leaf about `modS g`, read at one state -/
theorem Pres.modS_at {g : State → State} (h : Pres P (Foca.modS g)) (s : State) (hs : P s) : P (g s) :=
  h.run ⟨s, [], default⟩ hs

end Foca
