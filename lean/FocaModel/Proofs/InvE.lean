/-
  Invariants over state *and* the effects emitted so far, with the side conditions of `Compose` (which updates
  may be stored, which destinations may be sent to): the combination needed to state, for whole calls, where
  datagrams go.
-/
import FocaModel.Proofs.Compose
namespace Foca

structure PresE {α} (P : State → List Effect → Prop) (m : M α) : Prop where
  run : ∀ c, P c.s c.eff → match m c with
    | .ok _ c' => P c'.s c'.eff
    | .err _ c' => P c'.s c'.eff
    | .stuck _ => True

/-- … and the result satisfies `Q` -/
structure PresER {α} (P : State → List Effect → Prop) (Q : α → Prop) (m : M α) : Prop where
  run : ∀ c, P c.s c.eff → match m c with
    | .ok a c' => P c'.s c'.eff ∧ Q a
    | .err _ c' => P c'.s c'.eff
    | .stuck _ => True

section
variable {P : State → List Effect → Prop}

theorem PresE.pure {α} (a : α) : PresE P (pure a : M α) := ⟨fun _ h => h⟩

theorem PresE.bind {α β} {m : M α} {f : α → M β} (hm : PresE P m) (hf : ∀ a, PresE P (f a)) : PresE P (m >>= f) := by
  constructor
  intro c hc
  have := hm.run c hc
  simp only [bind_run]
  cases hmc : m c with
  | stuck x => trivial
  | err e c' => rw [hmc] at this; exact this
  | ok a c' => rw [hmc] at this; exact (hf a).run c' this

theorem PresER.bind {α β} {Q : α → Prop} {m : M α} {f : α → M β} (hm : PresER P Q m) (hf : ∀ a, Q a → PresE P (f a)) :
    PresE P (m >>= f) := by
  constructor
  intro c hc
  have := hm.run c hc
  simp only [bind_run]
  cases hmc : m c with
  | stuck x => trivial
  | err e c' => rw [hmc] at this; exact this
  | ok a c' => rw [hmc] at this; exact (hf a this.2).run c' this.1

theorem PresE.getS : PresE P Foca.getS := ⟨fun _ h => h⟩
theorem PresE.throwE {α} (e : ErrKind) : PresE P (Foca.throwE e : M α) := ⟨fun _ h => h⟩
theorem PresE.panicAt {α} (p : PanicSite) : PresE P (Foca.panicAt p : M α) := ⟨fun _ _ => trivial⟩
theorem PresE.badOracle {α} (w : String) : PresE P (Foca.badOracle w : M α) := ⟨fun _ _ => trivial⟩

theorem PresE.ite {α} {c : Prop} [Decidable c] {a b : M α} (ha : PresE P a) (hb : PresE P b) :
    PresE P (if c then a else b) := by
  split <;> assumption

/-- reading the state: what follows may use the invariant at the state that was read -/
theorem PresE.getS_with {β} {f : State → M β} (h : ∀ s eff, P s eff → PresE P (f s)) : PresE P (Foca.getS >>= f) :=
  ⟨fun c hc => by simp only [bind_run, getS_run]; exact (h c.s c.eff hc).run c hc⟩

/-- after the run: the invariant, or `Q` -/
def PostOr {α} (P : State → List Effect → Prop) (Q : Ctx → Prop) (r : R α) : Prop :=
  match r with
  | .ok _ c' => P c'.s c'.eff ∨ Q c'
  | .err _ c' => P c'.s c'.eff ∨ Q c'
  | .stuck _ => True

/-- a leaf about `modS g`, read at one state -/
theorem PresE.modS_at {g : State → State} (h : PresE P (Foca.modS g)) (s : State) (eff : List Effect) (hs : P s eff) :
    P (g s) eff :=
  h.run ⟨s, eff, default⟩ hs

theorem PresE.run_left {α} {m : M α} (h : PresE P m) (Q : Ctx → Prop) (c : Ctx) (hc : P c.s c.eff) :
    PostOr P Q (m c) := by
  have := h.run c hc
  unfold PostOr
  cases hm : m c with
  | stuck x => trivial
  | err e c' => rw [hm] at this; exact Or.inl this
  | ok a c' => rw [hm] at this; exact Or.inl this

/-- a read followed by a write computed from what was read -/
theorem PresE.getS_modS_bind {β} {g : State → State → State} {k : State → M β}
    (h1 : ∀ s eff, P s eff → P (g s s) eff) (h2 : ∀ s eff, P s eff → PresE P (k s)) :
    PresE P (Foca.getS >>= fun s => Foca.modS (g s) >>= fun _ => k s) :=
  ⟨fun c hc => by
    simp only [bind_run, getS_run, modS_run]
    exact (h2 c.s c.eff hc).run _ (h1 c.s c.eff hc)⟩

theorem PresE.of_frame {α} {m : M α} (h : Frame m) : PresE P m := by
  constructor
  intro c hc
  have := h c
  cases hm : m c with
  | stuck x => trivial
  | err e c' => rw [hm] at this; simp only at this ⊢; rw [this.1, this.2]; exact hc
  | ok a c' => rw [hm] at this; simp only at this ⊢; rw [this.1, this.2]; exact hc

theorem PresE.drawIdx (k : DrawKind) (n : Nat) : PresE P (Foca.drawIdx k n) := PresE.of_frame (drawIdx_frame k n)

theorem PresE.nextPick : PresE P Foca.nextPick := by
  constructor
  intro c hc
  have := nextPick_spec c
  cases h : Foca.nextPick c with
  | stuck x => trivial
  | err e c' => rw [h] at this; exact this.elim
  | ok a c' => rw [h] at this; simp only at this ⊢; rw [this.1, this.2]; exact hc

theorem PresE.attempt {m : M Unit} (hm : PresE P m) : PresE P (Foca.attempt m) := by
  constructor
  intro c hc
  have := hm.run c hc
  unfold Foca.attempt
  cases h : m c with
  | stuck x => trivial
  | err e c' => rw [h] at this; exact this
  | ok a c' => rw [h] at this; exact this

theorem PresE.modS_of {f : State → State} (h : ∀ s eff, P s eff → P (f s) eff) : PresE P (Foca.modS f) :=
  ⟨fun c hc => h c.s c.eff hc⟩

theorem PresE.emit_of {e : Effect} (h : ∀ s eff, P s eff → P s (eff ++ [e])) : PresE P (Foca.emit e) :=
  ⟨fun c hc => h c.s c.eff hc⟩

/-- `choose_members` keeps state and effects; what it returns was picked from the list it was given -/
theorem PresER.chooseLoop (w : Nat) (pick : Member → Bool) (l : List Member) :
    PresER P (fun r => ∀ m ∈ r, m ∈ l ∧ pick m = true) (Foca.chooseLoop w pick l [] 0) := by
  constructor
  intro c hc
  have := chooseLoop_spec w pick l [] 0 c
  cases h : Foca.chooseLoop w pick l [] 0 c with
  | stuck x => trivial
  | err e c' => rw [h] at this; exact this.elim
  | ok a c' =>
    rw [h] at this
    obtain ⟨h1, h2, h3, _⟩ := this
    simp only
    rw [h1, h2]
    refine ⟨hc, fun m hm => ?_⟩
    rcases h3 m hm with h4 | h4
    · simp at h4
    · exact h4

/-- a state invariant proven for a computation that emits nothing carries over -/
theorem PresE.of_pres_silent {α} {Q : State → Prop} {S : List Effect → Prop} {m : M α} (h : Pres Q m)
    (hs : ∀ c, match m c with | .ok _ c' => c'.eff = c.eff | .err _ c' => c'.eff = c.eff | .stuck _ => True) :
    PresE (fun s eff => Q s ∧ S eff) m :=
  ⟨fun c hc => by
    have h1 := h.run c hc.1
    have h2 := hs c
    cases hm : m c with
    | stuck x => trivial
    | err e c' => rw [hm] at h1 h2; simp only at h1 h2 ⊢; rw [h2]; exact ⟨h1, hc.2⟩
    | ok a c' => rw [hm] at h1 h2; simp only at h1 h2 ⊢; rw [h2]; exact ⟨h1, hc.2⟩⟩

/-- … with a fact about the result -/
theorem PresER.of_presR_silent {α} {Q : State → Prop} {S : List Effect → Prop} {R : α → Prop} {m : M α}
    (h : PresR Q R m)
    (hs : ∀ c, match m c with | .ok _ c' => c'.eff = c.eff | .err _ c' => c'.eff = c.eff | .stuck _ => True) :
    PresER (fun s eff => Q s ∧ S eff) R m :=
  ⟨fun c hc => by
    have h1 := h.run c hc.1
    have h2 := hs c
    cases hm : m c with
    | stuck x => trivial
    | err e c' => rw [hm] at h1 h2; simp only at h1 h2 ⊢; rw [h2]; exact ⟨h1, hc.2⟩
    | ok a c' => rw [hm] at h1 h2; simp only at h1 h2 ⊢; rw [h2]; exact ⟨⟨h1.1, hc.2⟩, h1.2⟩⟩

end

macro "prese_step" : tactic => `(tactic| first
  | exact PresE.pure _
  | exact PresE.getS
  | exact PresE.throwE _
  | exact PresE.panicAt _
  | exact PresE.badOracle _
  | exact PresE.drawIdx _ _
  | exact PresE.nextPick
  | with_reducible apply PresE.bind
  | with_reducible apply PresE.ite
  | (intro _; try dsimp only)
  | split)

macro "prese" : tactic => `(tactic| repeat' prese_step)

end Foca
