/-
  The calm invariant over a cluster (`Net`): as long as every probe timer fires after an answered round and nobody
  leaves, renames or injects outside knowledge, every node stays calm, every datagram on the wire carries only Alive
  claims about the cluster's identities, and no suspicion timer is ever scheduled — whatever the delivery order,
  however often datagrams are duplicated, lost or misdelivered.
-/
import FocaModel.Proofs.CalmInv
import FocaModel.Proofs.NetInv
namespace Foca
open Foca.C07 Foca.C07H

section
variable (E : Env) (ids : List Id)

/-- the API calls of a fault-free run -/
def Op.isCalmApi : Op → Bool
  | .announce _ => true
  | .gossip => true
  | .broadcast => true
  | .addBroadcast _ => true
  | .setConfig _ => true
  | _ => false

/-- every state of a cluster of instances with the identities `ids`, reachable without a failed probe round -/
inductive CalmReach : Net → Prop
  | init (ss : List State) :
      (∀ s ∈ ss, ∃ id pol cfg, IdWire id ∧ id ∈ ids ∧ s = State.init id pol cfg) → CalmReach ⟨ss, [], [], []⟩
  /-- a datagram on the wire reaches node `i` (the addressee or anybody else; again, or for the first time) -/
  | deliver {n : Net} (i : Nat) (s s' : State) (d : Id) (b : Bytes) (orc : Oracle) (eff : List Effect) (r : Res)
      (left : Oracle) : CalmReach n → n.nodes[i]? = some s → (d, b) ∈ n.wire →
      Foca.step E s (.data b) orc = .done s' eff r left → CalmReach (n.after E i s' eff)
  /-- a timer node `i` scheduled fires (any order, however late, possibly again); a probe timer that is
      current (token of this epoch, instance connected) only when the round before it was answered -/
  | fire {n : Net} (i : Nat) (s s' : State) (t : Timer) (orc : Oracle) (eff : List Effect) (r : Res)
      (left : Oracle) : CalmReach n → n.nodes[i]? = some s → (i, t) ∈ n.timers →
      (∀ tok, t = .probe tok → tok = s.token → s.conn = .connected → RoundAnswered s) →
      Foca.step E s (.timer t) orc = .done s' eff r left → CalmReach (n.after E i s' eff)
  /-- `announce` (to an address within the wire range), `gossip`, `broadcast`, `add_broadcast`, `set_config` -/
  | api {n : Net} (i : Nat) (s s' : State) (op : Op) (orc : Oracle) (eff : List Effect) (r : Res)
      (left : Oracle) : CalmReach n → n.nodes[i]? = some s → op.isCalmApi = true →
      (∀ d, op = .announce d → IdWire d) →
      Foca.step E s op orc = .done s' eff r left → CalmReach (n.after E i s' eff)

def CalmNet (n : Net) : Prop :=
  (∀ s ∈ n.nodes, CalmInv E (toldBy n.sent) ids s) ∧
  (∀ d b, (d, b) ∈ n.wire → ∃ h ∈ n.sent, h.dst = d ∧ HWire h ∧ (h.src ∈ ids ∧ h.srcInc = 0) ∧ h.msg ≠ .turnUndead ∧
    DatagramShape E (CalmM (toldBy n.sent) ids) h b) ∧
  (∀ i t, (i, t) ∈ n.timers → (∀ m inc tok, t ≠ .s2d m inc tok) ∧ ∀ id, t ≠ .rm id)

variable (hl : CodecLaws E.codec) (hhdr : HeaderLaw E.codec) (hdist : DistinctAddrs ids)
include hl hhdr hdist

omit hl hdist in
/-- what one calm call adds to the cluster -/
theorem calm_after_effects {τ : Id → Nat} {eff : List Effect} (he : ∀ e ∈ eff, CalmEff E τ ids (· ≠ .turnUndead) e) :
    (∀ d b, (d, b) ∈ sentDatagrams eff → ∃ h ∈ sentHeaders E eff, h.dst = d ∧ HWire h ∧ (h.src ∈ ids ∧ h.srcInc = 0) ∧
        h.msg ≠ .turnUndead ∧ DatagramShape E (CalmM τ ids) h b) ∧
    (∀ i j t, (j, t) ∈ schedTimers i eff → (∀ m inc tok, t ≠ .s2d m inc tok) ∧ ∀ id, t ≠ .rm id) := by
  refine ⟨?_, ?_⟩
  · intro d b hdb
    unfold sentDatagrams at hdb
    rw [List.mem_filterMap] at hdb
    obtain ⟨e, hmem, hq⟩ := hdb
    cases e with
    | timer a t => simp at hq
    | notify x => simp at hq
    | send d' b' =>
      simp only [Option.some.injEq, Prod.mk.injEq] at hq
      obtain ⟨rfl, rfl⟩ := hq
      obtain ⟨h, h1, h2, h3, h4, h5⟩ := he _ hmem
      refine ⟨h, ?_, h1, h2, h3, h4, h5⟩
      unfold sentHeaders
      rw [List.mem_filterMap]
      exact ⟨_, hmem, shape_header E hhdr h5 h2⟩
  · intro i j t hmem
    unfold schedTimers at hmem
    rw [List.mem_filterMap] at hmem
    obtain ⟨e, hm, hq⟩ := hmem
    cases e with
    | send d b => simp at hq
    | notify x => simp at hq
    | timer a t' =>
      simp only [Option.some.injEq, Prod.mk.injEq] at hq
      obtain ⟨_, rfl⟩ := hq
      refine ⟨fun m inc tok ht => ?_, fun id ht => ?_⟩
      · subst ht; exact he _ hm
      · subst ht; exact he _ hm

omit hl in
/-- one calm call of node `i` keeps the cluster invariant -/
theorem CalmNet.after (n : Net) (i : Nat) (s s' : State) (op : Op) (orc : Oracle) (eff : List Effect) (r : Res)
    (left : Oracle) (hinv : CalmNet E ids n) (hs : n.nodes[i]? = some s)
    (hop : CalmOp E (toldBy n.sent) ids s op) (hstep : Foca.step E s op orc = .done s' eff r left) :
    CalmNet E ids (n.after E i s' eff) := by
  obtain ⟨h1, h2, h3⟩ := hinv
  have hsmem : s ∈ n.nodes := List.mem_of_getElem? hs
  have hst := CalmSent.step E (toldBy n.sent) ids (· ≠ .turnUndead) (fun _ h => h) hdist s op orc (h1 s hsmem) hop
  rw [hstep] at hst
  obtain ⟨hcalm, heff⟩ := hst
  obtain ⟨a1, a2⟩ := calm_after_effects E ids hhdr heff
  have hle : ∀ id, toldBy n.sent id ≤ toldBy (n.sent ++ sentHeaders E eff) id := fun id => toldBy_append _ _ _
  refine ⟨?_, ?_, ?_⟩
  · intro x hx
    simp only [Net.after] at hx ⊢
    rcases List.mem_or_eq_of_mem_set hx with hx | hx
    · exact CalmInv.mono E _ ids hle (h1 x hx)
    · subst hx; exact CalmInv.mono E _ ids hle hcalm
  · intro d b hdb
    simp only [Net.after] at hdb ⊢
    rcases List.mem_append.1 hdb with hdb | hdb
    · obtain ⟨h, hm, q1, q2, q3, q4, q5⟩ := h2 d b hdb
      exact ⟨h, List.mem_append.2 (Or.inl hm), q1, q2, q3, q4, q5.mono (fun u hu => CalmM.mono hle hu)⟩
    · obtain ⟨h, hm, q1, q2, q3, q4, q5⟩ := a1 d b hdb
      exact ⟨h, List.mem_append.2 (Or.inr hm), q1, q2, q3, q4, q5.mono (fun u hu => CalmM.mono hle hu)⟩
  · intro j t hmem
    simp only [Net.after] at hmem
    rcases List.mem_append.1 hmem with hmem | hmem
    · exact h3 j t hmem
    · exact a2 i j t hmem

/-- **The calm invariant holds in every cluster reachable without a failed probe round.** -/
theorem CalmNet.reachable {n : Net} (h : CalmReach E ids n) : CalmNet E ids n := by
  induction h with
  | init ss hss =>
    refine ⟨?_, ?_, ?_⟩
    · intro s hs
      obtain ⟨id, pol, cfg, hw, hmem, rfl⟩ := hss s hs
      refine ⟨⟨hw, hmem⟩, by simp [State.init], ?_, ?_, ?_⟩
      · intro x hx; simp [State.init] at hx
      · intro x hx; simp [State.init] at hx
      · intro x hx; simp [State.init] at hx
    · intro d b h; simp at h
    · intro i t h; simp at h
  | @deliver n i s s' d b orc eff r left _ hs hw hstep ih =>
    refine CalmNet.after E ids hhdr hdist n i s s' (.data b) orc eff r left ih hs ?_ hstep
    obtain ⟨h, hm, q1, q2, q3, q4, q5⟩ := ih.2.1 d b hw
    exact shape_dataOk E hl hhdr (fun u hu => (mwire_iff u).1 hu.1.1) q5 q2 ⟨q2, q3.1, toldBy_mem hm, q4, q3.2⟩
  | @fire n i s s' t orc eff r left _ hs hw hpr hstep ih =>
    refine CalmNet.after E ids hhdr hdist n i s s' (.timer t) orc eff r left ih hs ?_ hstep
    have hns := ih.2.2 i t hw
    cases t with
    | s2d m inc tok => exact absurd rfl (hns.1 m inc tok)
    | probe tok => exact hpr tok rfl
    | indirect p tok => trivial
    | rm id => trivial
    | pa tok => trivial
    | pg tok => trivial
    | pad tok => trivial
  | @api n i s s' op orc eff r left _ hs hapi hann hstep ih =>
    refine CalmNet.after E ids hhdr hdist n i s s' op orc eff r left ih hs ?_ hstep
    cases op with
    | announce d => exact hann d rfl
    | gossip => trivial
    | broadcast => trivial
    | addBroadcast b => trivial
    | setConfig c => trivial
    | applyMany us b => simp [Op.isCalmApi] at hapi
    | data b => simp [Op.isCalmApi] at hapi
    | timer t => simp [Op.isCalmApi] at hapi
    | leave => simp [Op.isCalmApi] at hapi
    | changeIdentity i p => simp [Op.isCalmApi] at hapi
    | reuseDown => simp [Op.isCalmApi] at hapi

end
end Foca
