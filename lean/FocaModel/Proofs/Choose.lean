/-
  `choose_members` (reservoir sampling): frame, soundness, bound, no index panic.
-/
import FocaModel.Proofs.Monad
namespace Foca

/-- what a `chooseLoop` run guarantees -/
def ChooseOK (wanted : Nat) (pick : Member → Bool) (l out : List Member) (c : Ctx) (res : R (List Member)) : Prop :=
  match res with
  | .ok r c' => c'.s = c.s ∧ c'.eff = c.eff ∧ (∀ m ∈ r, m ∈ out ∨ (m ∈ l ∧ pick m = true)) ∧
      r.length ≤ max out.length wanted
  | .err _ _ => False
  | .stuck x => ∀ p, x ≠ .panic p

theorem chooseLoop_spec (wanted : Nat) (pick : Member → Bool) (l out : List Member) (seen : Nat) (c : Ctx) :
    ChooseOK wanted pick l out c (chooseLoop wanted pick l out seen c) := by
  induction l generalizing out seen c with
  | nil =>
    simp [chooseLoop, ChooseOK]
    omega
  | cons m rest ih =>
    unfold chooseLoop
    by_cases hp : pick m = true
    · simp only [hp, Bool.not_true, Bool.false_eq_true, if_false]
      by_cases hl : out.length < wanted
      · simp only [hl, if_true]
        have := ih (out ++ [m]) (seen + 1) c
        unfold ChooseOK at this ⊢
        split at this
        · rename_i r c' heq
          obtain ⟨h1, h2, h3, h4⟩ := this
          refine ⟨h1, h2, ?_, ?_⟩
          · intro x hx
            rcases h3 x hx with h | ⟨h, hq⟩
            · simp at h
              rcases h with h | h
              · exact Or.inl h
              · subst h; exact Or.inr ⟨by simp, hp⟩
            · exact Or.inr ⟨by simp [h], hq⟩
          · simp at h4; omega
        · exact this.elim
        · exact this
      · simp only [hl, if_false]
        simp only [bind_run]
        have hd := drawIdx_frame .range (seen + 1) c
        cases hdr : drawIdx .range (seen + 1) c with
        | stuck x =>
          simp only [ChooseOK]
          -- drawIdx never panics
          unfold drawIdx at hdr
          cases hdd : c.orc.draws with
          | nil => simp [hdd] at hdr; subst hdr; intro p; simp
          | cons d ds =>
            cases d with
            | perm q => simp [hdd] at hdr; subst hdr; intro p; simp
            | idx k' =>
              by_cases hk : k' < seen + 1
              · simp [hdd, hk] at hdr
              · simp [hdd, hk] at hdr; subst hdr; intro p; simp
        | err e c1 =>
          rw [hdr] at hd; 
          unfold drawIdx at hdr
          cases hdd : c.orc.draws with
          | nil => simp [hdd] at hdr
          | cons d ds =>
            cases d with
            | perm q => simp [hdd] at hdr
            | idx k' => by_cases hk : k' < seen + 1 <;> simp [hdd, hk] at hdr
        | ok r c1 =>
          rw [hdr] at hd
          simp only at hd
          obtain ⟨hs, he⟩ := hd
          simp only
          by_cases hr : r < wanted
          · have hro : r < out.length := by omega
            simp only [hr, hro, if_true]
            have := ih (out.set r m) (seen + 1) c1
            unfold ChooseOK at this ⊢
            split at this
            · rename_i r' c' heq
              obtain ⟨h1, h2, h3, h4⟩ := this
              refine ⟨h1.trans hs, h2.trans he, ?_, ?_⟩
              · intro x hx
                rcases h3 x hx with h | ⟨h, hq⟩
                · rcases List.mem_or_eq_of_mem_set h with h | h
                  · exact Or.inl h
                  · subst h; exact Or.inr ⟨by simp, hp⟩
                · exact Or.inr ⟨by simp [h], hq⟩
              · simp at h4; omega
            · exact this.elim
            · exact this
          · simp only [hr, if_false]
            have := ih out (seen + 1) c1
            unfold ChooseOK at this ⊢
            split at this
            · rename_i r' c' heq
              obtain ⟨h1, h2, h3, h4⟩ := this
              refine ⟨h1.trans hs, h2.trans he, ?_, h4⟩
              intro x hx
              rcases h3 x hx with h | ⟨h, hq⟩
              · exact Or.inl h
              · exact Or.inr ⟨by simp [h], hq⟩
            · exact this.elim
            · exact this
    · have hp' : pick m = false := by simpa using hp
      simp only [hp', Bool.not_false, if_true]
      have := ih out seen c
      unfold ChooseOK at this ⊢
      split at this
      · rename_i r c' heq
        obtain ⟨h1, h2, h3, h4⟩ := this
        refine ⟨h1, h2, ?_, h4⟩
        intro x hx
        rcases h3 x hx with h | ⟨h, hq⟩
        · exact Or.inl h
        · exact Or.inr ⟨by simp [h], hq⟩
      · exact this.elim
      · exact this

end Foca
