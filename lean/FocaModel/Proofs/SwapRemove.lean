/-
  `Vec::swap_remove` removes exactly one element (the one at the index) and permutes the rest.
-/
import FocaModel.Members
namespace Foca

theorem swapRemoveAt_perm {α} {l : List α} {p : Nat} {x : α} (h : l[p]? = some x) :
    (x :: swapRemoveAt l p).Perm l := by
  obtain ⟨hlt, hx⟩ := List.getElem?_eq_some_iff.1 h
  unfold swapRemoveAt
  simp only [h]
  by_cases hp : (p + 1 == l.length) = true
  · simp only [hp, if_true]
    have hp' : p + 1 = l.length := by simpa using hp
    have hne : l ≠ [] := by intro e; rw [e] at hlt; simp at hlt
    have hlast : l.getLast hne = x := by
      rw [List.getLast_eq_getElem]
      have : l.length - 1 = p := by omega
      simp [this, hx]
    have hl : l.dropLast ++ [x] = l := by
      rw [← hlast]; exact List.dropLast_concat_getLast hne
    have hperm : (x :: l.dropLast).Perm (l.dropLast ++ [x]) := by
      simpa using (List.perm_append_comm (l₁ := [x]) (l₂ := l.dropLast))
    exact hperm.trans (List.Perm.of_eq hl)
  · simp only [hp, Bool.false_eq_true, if_false]
    have hp' : p + 1 < l.length := by
      have : ¬ p + 1 = l.length := by simpa using hp
      omega
    have hne : l ≠ [] := by intro e; rw [e] at hlt; simp at hlt
    have hgl : l.getLast? = some (l.getLast hne) := List.getLast?_eq_some_getLast hne
    simp only [hgl]
    -- l = take p ++ x :: drop (p+1), drop (p+1) = D ++ [last]
    have hsplit : l = l.take p ++ x :: l.drop (p + 1) := by
      rw [← hx, ← List.drop_eq_getElem_cons hlt, List.take_append_drop]
    have hdne : l.drop (p + 1) ≠ [] := by
      intro e
      have := congrArg List.length e
      simp at this
      omega
    have hdlast : (l.drop (p + 1)).getLast hdne = l.getLast hne := by
      simp [List.getLast_drop]
    have hd : (l.drop (p + 1)).dropLast ++ [l.getLast hne] = l.drop (p + 1) := by
      rw [← hdlast]; exact List.dropLast_concat_getLast hdne
    -- goal: x :: (take p ++ last :: D) ~ l
    have h1 : (l.getLast hne :: (l.drop (p + 1)).dropLast).Perm (l.drop (p + 1)) := by
      have : (l.getLast hne :: (l.drop (p + 1)).dropLast).Perm ((l.drop (p + 1)).dropLast ++ [l.getLast hne]) := by
        simpa using (List.perm_append_comm (l₁ := [l.getLast hne]) (l₂ := (l.drop (p + 1)).dropLast))
      exact this.trans (List.Perm.of_eq hd)
    have h2 : (l.take p ++ l.getLast hne :: (l.drop (p + 1)).dropLast).Perm (l.take p ++ l.drop (p + 1)) :=
      List.Perm.append_left _ h1
    have h3 : (x :: (l.take p ++ l.drop (p + 1))).Perm (l.take p ++ x :: l.drop (p + 1)) := List.perm_middle.symm
    exact (((List.Perm.cons x h2).trans h3).trans (List.Perm.of_eq hsplit.symm))

theorem swapRemoveAt_length {α} {l : List α} {p : Nat} (h : p < l.length) :
    (swapRemoveAt l p).length + 1 = l.length := by
  have hx : l[p]? = some l[p] := List.getElem?_eq_getElem h
  have := (swapRemoveAt_perm hx).length_eq
  simpa using this

end Foca
