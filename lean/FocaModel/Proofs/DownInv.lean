/-
  Down is final: while no forget-timer fires, an identity recorded as Down stays recorded as Down — or its address
  is taken over by an identity of a higher generation, which can itself only be superseded by a still higher one.
  (Generated from the structure of `DownInv.lean`; the one new lemma is `updateKnown_down`.)
-/
import FocaModel.Proofs.GenInv
import FocaModel.Proofs.SwapRemove
namespace Foca

/-- what the record at the address of `x` looks like once `x` was recorded as Down -/
def DownOk (x : Id) (m : Member) : Prop := (m.id = x ∧ m.st = .down) ∨ m.id.gen > x.gen

/-- identity `x` is recorded as Down, or its address is held by an identity of a higher generation -/
def DownInv (x : Id) (s : State) : Prop := ∃ m ∈ s.ms, m.id.addr = x.addr ∧ DownOk x m

/-- an update leaves such a record such a record -/
theorem updateKnown_down (x : Id) (k u : Member) (cond : Member → Bool) (hk : k.id.addr = u.id.addr)
    (hd : DownOk x k) :
    (updateKnown k u cond).1.id.addr = k.id.addr ∧ DownOk x (updateKnown k u cond).1 := by
  unfold updateKnown
  by_cases h1 : (k.id != u.id && k.id.wins u.id) = true
  · simp [h1]; exact hd
  · by_cases h2 : cond k = true
    · by_cases h3 : (k.id != u.id) = true
      · have hw : k.id.wins u.id = false := by
          cases hw : k.id.wins u.id with
          | false => rfl
          | true => simp [h3, hw] at h1
        have hge : ¬ k.id.gen > u.id.gen := by simpa [Id.wins] using hw
        have hne : k.id ≠ u.id := by simpa using h3
        have hgne : k.id.gen ≠ u.id.gen := by
          intro hg
          apply hne
          cases hki : k.id with
          | mk ka kg =>
            cases hui : u.id with
            | mk ua ug =>
              rw [hki, hui] at hk hg
              simp only at hk hg
              rw [hk, hg]
        simp [h1, h2, h3, hw, hk]
        right
        show u.id.gen > x.gen
        rcases hd with ⟨hid, _⟩ | hgt
        · rw [hid] at hge hgne; omega
        · omega
      · have heq : k.id = u.id := by simpa using h3
        by_cases h4 : Gen.canChange k.st k.inc u.inc u.st = true
        · simp [h1, h2, h3, h4]
          rcases hd with ⟨hid, hst⟩ | hgt
          · rw [hst] at h4; simp [Gen.canChange] at h4
          · exact Or.inr hgt
        · simp [h1, h2, h3, h4]; exact hd
    · simp [h1, h2]; exact hd

/-- `apply_existing_if` keeps every record or replaces it by one of the same address that is still `DownOk` -/
theorem applyExisting_down (x : Id) {ms ms' : List Member} {u : Member} {cond : Member → Bool} {sm : Summary}
    (h : applyExisting ms u cond = some (ms', sm)) :
    ∀ m ∈ ms, DownOk x m → m ∈ ms' ∨ ∃ r ∈ ms', r.id.addr = m.id.addr ∧ DownOk x r := by
  induction ms generalizing ms' sm with
  | nil => simp [applyExisting] at h
  | cons k rest ih =>
    unfold applyExisting at h
    by_cases hk : (k.id.addr == u.id.addr) = true
    · simp only [hk, if_true] at h
      simp at h
      obtain ⟨h1, _⟩ := h
      subst h1
      intro m hm hdm
      simp only [List.mem_cons] at hm
      rcases hm with hm | hm
      · subst hm
        right
        have := updateKnown_down x m u cond (by simpa using hk) hdm
        exact ⟨_, by simp, this.1, this.2⟩
      · left; simp [hm]
    · simp only [hk, Bool.false_eq_true, if_false] at h
      cases hr : applyExisting rest u cond with
      | none => rw [hr] at h; simp at h
      | some r =>
        obtain ⟨rest', s'⟩ := r
        rw [hr] at h
        simp at h
        obtain ⟨h1, _⟩ := h
        subst h1
        intro m hm hdm
        simp only [List.mem_cons] at hm
        rcases hm with hm | hm
        · left; simp [hm]
        · rcases ih hr m hm hdm with h2 | ⟨r, hr1, hr2⟩
          · left; simp [h2]
          · right; exact ⟨r, by simp [hr1], hr2⟩

section
variable (E : Env) (x : Id)

theorem DownInv.of_ms {s s' : State}
    (h : ∀ m ∈ s.ms, DownOk x m → m ∈ s'.ms ∨ ∃ r ∈ s'.ms, r.id.addr = m.id.addr ∧ DownOk x r)
    (hs : DownInv x s) : DownInv x s' := by
  obtain ⟨m, hm, ha, hg⟩ := hs
  rcases h m hm hg with h1 | ⟨r, hr, hra, hrg⟩
  · exact ⟨m, h1, ha, hg⟩
  · exact ⟨r, hr, by rw [hra]; exact ha, hrg⟩

theorem DownInv.of_same {s s' : State} (h : s'.ms = s.ms) (hs : DownInv x s) : DownInv x s' := by
  unfold DownInv at *; rw [h]; exact hs

theorem DownInv.base : Base E (DownInv x) (fun _ => True) where
  ownDown := fun _ _ => trivial
  membersApply := fun u _ => ⟨fun c hc => by
    unfold Foca.membersApply
    cases h : Foca.applyExisting c.s.ms u (fun _ => true) with
    | some r =>
      obtain ⟨ms', sm⟩ := r
      exact DownInv.of_ms x (fun m hm hd => applyExisting_down x h m hm hd) hc
    | none =>
      simp only
      have hd := drawIdx_frame .choose (c.s.ms.length + 1) c
      cases hdr : Foca.drawIdx .choose (c.s.ms.length + 1) c with
      | stuck x => trivial
      | err e c1 => rw [hdr] at hd; simp only at hd ⊢; rw [hd.1]; exact hc
      | ok j c1 =>
        rw [hdr] at hd
        simp only at hd ⊢
        refine DownInv.of_ms x (fun m hm _ => Or.inl ?_) hc
        exact (applyNew_perm c.s.ms u j).mem_iff.2 (List.mem_cons_of_mem _ hm)⟩
  membersApplyExistingIf := fun u cond _ => ⟨fun c hc => by
    unfold Foca.membersApplyExistingIf
    cases h : Foca.applyExisting c.s.ms u cond with
    | some r =>
      obtain ⟨ms', sm⟩ := r
      exact DownInv.of_ms x (fun m hm hd => applyExisting_down x h m hm hd) hc
    | none => exact hc⟩
  membersNext := ⟨fun c hc => by
    unfold Foca.membersNext
    by_cases hs : needsShuffle c.s.cursor c.s.ms.length = true
    · simp only [hs, if_true]
      unfold Foca.drawShuffle
      cases hd : c.orc.draws with
      | nil => trivial
      | cons d rest =>
        cases d with
        | idx k => trivial
        | perm p =>
          simp only
          by_cases hperm : (p.filterMap (fun i => c.s.ms[i]?)).isPerm c.s.ms = true
          · simp only [hperm, if_true]
            have hp : (p.filterMap (fun i => c.s.ms[i]?)).Perm c.s.ms := List.isPerm_iff.1 hperm
            exact ⟨DownInv.of_ms x (fun m hm _ => Or.inl (hp.mem_iff.2 hm)) hc, fun _ _ => trivial⟩
          · simp [hperm]
    · simp only [hs, Bool.false_eq_true, if_false]
      exact ⟨DownInv.of_same x rfl hc, fun _ _ => trivial⟩⟩
  startProbe := fun m _ => Pres.modS_of (fun s hs => DownInv.of_same x rfl hs)
  sendMessage := Pres.sendMessage E (by intro s s' h hs; exact DownInv.of_same x (by rw [h]) hs)
  addUpdate := fun m _ => by
    unfold Foca.addUpdate
    exact Pres.modS_of (fun s hs => DownInv.of_same x rfl hs)
  modCtl := fun f h => Pres.modS_of (fun s hs => DownInv.of_same x (h s).1 hs)
  setHst := fun _ => Pres.modS_of (fun s hs => DownInv.of_same x rfl hs)
  addCustom := fun _ _ _ _ => Pres.modS_of (fun s hs => DownInv.of_same x rfl hs)

theorem DownInv.modId (f : State → State) (h : IdCtl f) : Pres (DownInv x) (modS f) :=
  Pres.modS_of (fun s hs => DownInv.of_same x (h s).1 hs)

theorem DownInv.full : Full E (DownInv x) (fun _ => True) (fun _ => True) (fun _ => True) where
  toBase := DownInv.base E x
  handleSelfUpdate := (DownInv.base E x).handleSelfUpdate_of (DownInv.modId x)
  inputDown := fun _ _ => trivial
  senderOk := fun _ _ _ _ _ => trivial
  applyOk := fun _ _ _ _ _ _ => trivial
  failedOk := fun _ _ _ _ => trivial

/-- the calls that keep the Down record of `x`: everything except a forget-timer naming `x` itself or a newer
    identity of its address -/
def Op.keepsDown (x : Id) (op : Op) : Prop :=
  ∀ id, op = .timer (.rm id) → id.addr = x.addr → id.gen < x.gen

theorem Op.keepsDown_of_not_forgets (x : Id) (op : Op) (h : Op.forgets op = false) : Op.keepsDown x op := by
  intro id hid; subst hid; simp [Op.forgets] at h

theorem removeIfDown_cases (ms : List Member) (id : Id) :
    removeIfDown ms id = ms ∨ ∃ m, m.id = id ∧ m.st = .down ∧ (m :: removeIfDown ms id).Perm ms := by
  unfold removeIfDown
  cases h : ms.findIdx? (fun m => m.id == id && m.st == .down) with
  | none => exact Or.inl rfl
  | some p =>
    right
    obtain ⟨hlt, hp, _⟩ := List.findIdx?_eq_some_iff_getElem.1 h
    have hp' := Bool.and_eq_true_iff.1 hp
    exact ⟨ms[p], by simpa using hp'.1, by simpa using hp'.2, swapRemoveAt_perm (List.getElem?_eq_getElem hlt)⟩

/-- a forget-timer for another address, or for an older identity of the address, leaves the record in place -/
theorem DownInv.forget (id : Id) (hid : id.addr = x.addr → id.gen < x.gen) :
    Pres (DownInv x) (modS fun s => { s with ms := removeIfDown s.ms id }) := by
  refine Pres.modS_of (fun s hs => ?_)
  rcases removeIfDown_cases s.ms id with h | ⟨r, hr, _, hperm⟩
  · exact DownInv.of_same x (by simp [h]) hs
  · obtain ⟨m, hm, ha, hd⟩ := hs
    have hm' : m ∈ r :: removeIfDown s.ms id := hperm.mem_iff.2 hm
    simp only [List.mem_cons] at hm'
    rcases hm' with hm' | hm'
    · exfalso
      subst hm'
      have hlt := hid (by rw [← hr]; exact ha)
      rcases hd with ⟨hx, _⟩ | hgt
      · rw [← hr, hx] at hlt; omega
      · rw [← hr] at hlt; omega
    · exact ⟨m, hm', ha, hd⟩

/-- One public call other than a forget-timer for `x` or a newer identity of its address — any input — keeps an identity that is recorded as Down recorded as
    Down, or its address held by an identity of a higher generation. -/
theorem DownInv.step (s : State) (op : Op) (orc : Oracle) (h : DownInv x s) (hop : Op.keepsDown x op) :
    match Foca.step E s op orc with
    | .done s' _ _ _ => DownInv x s'
    | .stuck _ => True := by
  have F := DownInv.full E x
  have hrun := (F.runOp op
    (fun i p _ => F.toBase.changeIdentity_of (DownInv.modId x) i p)
    (fun _ => F.toBase.reuseDownIdentity_of (DownInv.modId x))
    (fun _ _ _ _ => trivial) (fun _ _ _ _ _ => trivial)
    (fun _ _ _ _ _ => ⟨trivial, fun _ _ _ _ _ => trivial⟩)
    (fun id hid => DownInv.forget x id (hop id hid))).run ⟨s, [], orc⟩ h
  unfold Foca.step
  cases hr : Foca.runOp E op ⟨s, [], orc⟩ with
  | stuck _ => trivial
  | ok r c => rw [hr] at hrun; exact hrun
  | err e c => rw [hr] at hrun; exact hrun

end
end Foca
