"""Per-property metadata used by ./check and by tools/gen_manifest.py."""

TRUSTED_BASE = [
    "Lean 4.33.0 kernel (thorough tier: re-checked with leanchecker); axioms allowed: propext, Classical.choice, Quot.sound (audited per theorem with #print axioms on every run); no native_decide, bv_decide, sorry, admit, added axioms",
    "the reading of the property as the statements in lean/FocaModel/Props/<id>.lean",
    "tools/extract.py (translator for decision tables: can_change, is_active, message predicates, Timer::seq, Probe::succeeded/validate, Entry::cmp, set_config guard, accept_payload, framing constants) - its output is executed by the driver and therefore itself under correspondence",
    "hand model lean/FocaModel/{Members,Backlog,Codec,Foca}.lean of src/{member,broadcast,probe,lib}.rs and of the three codecs: tied to the code only by the correspondence run of this check (differential testing, bounded by the generator), not by proof",
    "harness/ (Rust): generators, canonicalisation, mirror RNG protocol, datagram grammar parser, oracles; Lean compiler/runtime for the compiled driver (not for any theorem)",
    "assumed about code outside the crate: rand (shuffle is a permutation, choose/random_range < n: validated dynamically per draw), alloc BinaryHeap (pops a maximal element: validated per datagram by the fill oracle), bytes::Limit, serde derive field order, postcard/bincode wire formats (checked byte for byte by correspondence)",
]

Q = {"corr_cases": 1500, "search": 4000}
T = {"corr_cases": 40000, "search": 150000}


def P(title, clauses, rule, assumptions, quick=None, thorough=None, trusted_extra=None, text=None):
    return {
        "title": title,
        "clauses": clauses,
        "rule": rule,
        "assumptions": assumptions,
        "quick": quick or Q,
        "thorough": thorough or T,
        "trusted_extra": trusted_extra or [],
        "text": text or "",
    }


RULE_HIST = ("correspondence: random structured histories (profile of this property: op alphabet weights, small colliding identity/incarnation domains, "
             "tight packet sizes, malformed stream) executed on the real crate and on the compiled Lean model, every output line compared; "
             "a case is distinct by the hash of its canonical setup+op list and non-trivial when it produced at least one runtime effect and used at least two op kinds. ")

PROPS = {
    "C01": P(
        "Membership knowledge is a join-semilattice",
        {
            "precedence order (Down top, incarnation, Suspect over Alive; full u16 range)": "theorem (full) over the generated can_change table: precedence_is_rank_order, down_overrides, down_is_final",
            "address conflict: winner supersedes whatever the states": "theorem (full): conflict_winner_supersedes, conflict_loser_discarded",
            "view independent of order and multiplicity": "theorem (full) at the Members layer for every RNG draw: apply_is_join, order_irrelevant, multiplicity_irrelevant, monotone, equal_keys_mean_equal_records",
            "re-applying own full state changes nothing": "theorem (full) at the Members layer: reapply_own_state_is_noop",
            "two-way exchange agrees on third-party addresses": "theorem (full) at the Members layer: exchange_agrees; the own-address normalisation of Foca::apply_many is covered by correspondence + search (implementation oracle), not by a theorem",
        },
        RULE_HIST + "search: random multisets of updates over 5 addresses x 3 generations x boundary incarnations applied to fresh real instances in several permutations with duplications (views compared), self-reapply, two-instance exchange; distinct by multiset hash, non-trivial when the multiset has a conflict or a repeated address.",
        ["incarnations are u16 (hypothesis inc <= 65535 of the theorems; the Rust type guarantees it)",
         "identity laws: == is (addr, gen) equality; same address and different identity implies different generation; win_addr_conflict is 'greater generation'"],
    ),
}
