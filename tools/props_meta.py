"""Per-property metadata used by ./check and by tools/gen_manifest.py."""

TRUSTED_BASE = [
    "Lean 4.33.0 kernel (thorough tier: re-checked with leanchecker); axioms allowed: propext, Classical.choice, Quot.sound (audited per theorem with #print axioms on every run); no native_decide, bv_decide, sorry, admit, added axioms",
    "the reading of the property as the statements in lean/FocaModel/Props/<id>.lean and, for whole-history statements, <id>H.lean",
    "tools/extract.py (translator for decision tables: can_change, is_active, message predicates, Timer::seq, Probe::succeeded/validate, Entry::cmp, set_config guard, accept_payload, framing constants) - its output is executed by the driver and therefore itself under correspondence",
    "hand model lean/FocaModel/{Members,Backlog,Codec,Foca}.lean of src/{member,broadcast,probe,lib}.rs and of the three codecs: tied to the code only by the correspondence run of this check (differential testing, bounded by the generator), not by proof",
    "harness/ (Rust): generators, canonicalisation, mirror RNG protocol, datagram grammar parser, oracles; Lean compiler/runtime for the compiled driver (not for any theorem)",
    "assumed about code outside the crate: rand (shuffle is a permutation, choose/random_range < n: validated dynamically per draw), alloc BinaryHeap (pops a maximal element: validated per datagram by the fill oracle), bytes::Limit, serde derive field order, postcard/bincode wire formats (checked byte for byte by correspondence)",
]

Q = {"corr_cases": 60000, "search": 1200000}
T = {"corr_cases": 400000, "search": 12000000}


def P(title, clauses, rule, assumptions, quick=None, thorough=None, trusted_extra=None, text=None):
    return {
        "title": title,
        "clauses": clauses,
        "rule": rule,
        "assumptions": assumptions,
        "quick": quick or Q,
        "thorough": thorough or T,
        "trusted_extra": trusted_extra or [],
        "text": text or "",
    }


RULE_HIST = ("correspondence: random structured histories (profile of this property: op alphabet weights, small colliding identity/incarnation domains, "
             "tight packet sizes, malformed stream) executed on the real crate and on the compiled Lean model, every output line compared; "
             "a case is distinct by the hash of its canonical setup+op list and non-trivial when it produced at least one runtime effect and used at least two op kinds. ")

PROPS = {
    "C01": P(
        "Membership knowledge is a join-semilattice",
        {
            "precedence order (Down top, incarnation, Suspect over Alive; full u16 range)": "theorem (full) over the generated can_change table: precedence_is_rank_order, down_overrides, down_is_final",
            "address conflict: winner supersedes whatever the states": "theorem (full): conflict_winner_supersedes, conflict_loser_discarded",
            "view independent of order and multiplicity": "theorem (full) at the Members layer for every RNG draw: apply_is_join, order_irrelevant, multiplicity_irrelevant, monotone, equal_keys_mean_equal_records",
            "re-applying own full state changes nothing": "theorem (full) at the Members layer: reapply_own_state_is_noop",
            "two-way exchange agrees on third-party addresses": "theorem (full), at the Members layer: exchange_agrees; at the level of the instance: C01H.apply_many_is_join_at_third_parties (a successful Foca::apply_many — whatever the batch says about the instance itself or about other identities of its address, whatever the RNG draws — leaves at every other address exactly the join of what was known and what the batch says), C01H.exchange_agrees_on_third_parties, C01H.reapply_own_state_keeps_third_parties (Proofs/ViewInv.lean: VInv, pre/post rules TrOk for successful runs)",
        },
        RULE_HIST + "search: random multisets of updates over 5 addresses x 3 generations x boundary incarnations applied to fresh real instances in several permutations with duplications (views compared), self-reapply, two-instance exchange; distinct by multiset hash, non-trivial when the multiset has a conflict or a repeated address.",
        ["incarnations are u16 (hypothesis inc <= 65535 of the theorems; the Rust type guarantees it)",
         "identity laws: == is (addr, gen) equality; same address and different identity implies different generation; win_addr_conflict is 'greater generation'"],
    ),

    "C06": P(
        "Foca never panics",
        {
            "reservoir sampling index, feed estimate division, u16 counters, u16 item length (sending path)": "theorem (full for max_packet_size <= 65535, any codec/handler/oracle): choose_members_no_panic, member_section_no_panic, custom_tail_no_panic, counters_stay_in_range",
            "send buffer capacity assertion after set_config": "theorem (full, whole histories): part of C06H.never_panics (NPInv.setConfig: set_config keeps the send buffer in step with max_packet_size — false before the fix: commit for finding F1)",
            "all other panic sites (receive path, timers, API calls), both build modes": "theorem (full over the model's panic-site inventory, whole histories, debug and release, any input/timer/RNG, packets up to 65535 bytes): C06H.never_panics, C06H.never_panics_step (invariant NPInv: send buffer = configured packet size <= 65535; every guarded assertion is entered only under its condition: become_connected/become_disconnected, apply_update, probe_random_member, expect_indirect_ack; Proofs/NoPanic.lean); that the inventory of sites matches the code is checked by correspondence in debug-assertions and release builds (catch_unwind around every call) and by the search",
            "Config::new_lan / new_wan for every NonZeroU32": "not modelled (floating point); native exhaustive/strided execution in the search",
        },
        RULE_HIST + "search: hostile profile (40% malformed datagrams: truncations, bit flips, trailing bytes, oversized, random bytes; crafted timers; every API call incl. set_config) on real instances in a debug-assertions build with catch_unwind; Config constructors over powers of ten, 2^k boundaries and strided values (all 2^32-1 values in the thorough tier).",
        ["user-supplied Codec, Runtime, BroadcastHandler and Identity do not panic", "allocation failure is out of scope", "theorems assume max_packet_size <= 65535 (larger packets: search only)"],
    ),
    "C07": P(
        "Every emitted datagram is well-formed, bounded and accepted by its peer",
        {
            "at most max_packet_size bytes; header = current identity, incarnation, destination, message; one datagram per send; only backlogs change": "theorem (full, any codec/handler/oracle): datagram_bounded_and_headed",
            "Announce and TurnUndead carry nothing; Broadcast has no member section": "theorem (full): bare_messages_carry_nothing, broadcast_has_no_member_section",
            "count followed by exactly that many members, read back by the receiver loop": "theorem (full for lawful codecs): section_reads_back",
            "Feed lists only active members other than the receiver": "theorem (full): feed_candidates; 'other than the sender' follows from own-address-never-active (C09/C19 theorems)",
            "custom items length-prefixed": "theorem: custom_item_framing",
            "peer accepts without Decode/Malformed error": "theorem (full, whole histories): C07H.peer_accepts_every_datagram (Props/C07S.lean) — in any history with wire-range inputs (C07H/WireInv: WireHistory, InputWire: what any u16-typed codec decodes; identities within the type's range), every datagram any call hands to the runtime, delivered to a peer with the same codec (CodecLaws + HeaderLaw: it reads back the wire-range members and headers it wrote — proven for the models of the fixed, postcard, bincode and packed codecs: C07H.bundled_codec_laws, C07H.bundled_header_laws; every header foca builds is shown wire-range, HWire), the same packet size (at most 65535), another address, and addressed to it, is never answered with DataTooBig, Decode or MalformedPacket: C07H.every_datagram_has_the_shape (header; or header ++ count ++ that many encoded wire-range members ++ length-prefixed non-empty items; or, Broadcast, header ++ items — and nothing else), C07H.shaped_datagram_is_read_back (handle_data on it is processParsed on exactly these members and items), C07H.processParsed_never_rejects. Layers: Proofs/WireInv.lean (everything held stays within the wire range; renew wraps at u16 like the identity type), Proofs/Shape.lean (sendMessage_shape: member section, custom tail, by the fill and Feed-loop lemmas), Proofs/ComposeE.lean (generic effect-aware composition with side conditions, generated from Compose.lean), Proofs/SentInv.lean (Sent = wire range ∧ items never empty ∧ every datagram emitted so far has the shape), Proofs/ErrKinds.lean (which errors the processing path can end with); byte-level read-back: C07H.wellformed_datagram_is_read_back, broadcast_datagram_is_read_back, bare_datagram_is_read_back, custom_tail_is_delivered, section_parses_back",
        },
        RULE_HIST + "search: every datagram of every generated history is parsed by an independent grammar parser (written against the doc comment of Header) and fed to a fresh real peer instance with the same codec and packet size; packet sizes swept from just-fits-a-header upwards, all three codecs.",
        ["Codec contract: decode(encode(x) ++ rest) = (x, rest) for u16-range values (proved for the three codecs in C20)"],
    ),
    "C08": P(
        "Notifications faithfully mirror membership and connection state",
        {
            "MemberUp/MemberDown/Rename emitted exactly as the active set changes": "theorem (full): summary_matches_transition, notifications_follow_summary",
            "num_members equals the number of active records": "theorem (full, every reachable state of the instance model — any history of public calls, inputs and RNG draws): C08H.num_members_exact_always (induction step C08H.num_members_exact_step over every model function; Proofs/Compose.lean, Proofs/MsInv.lean); per update: active_records_move_with_summary, counter_tracks_active_records",
            "Active only from idle with an active member; Idle only when none is left": "theorem (full, one call of adjust_connection_state): connection_transitions",
            "replay of all notifications equals iter_members after every call (whole histories)": "theorem (full): C08H.notifications_replay_one_call (any public call from any reachable state, also when it returns an error: replaying its MemberUp/MemberDown/Rename notifications on the active set before gives the active set after) and C08H.notifications_replay_whole_history (all notifications since Foca::new replayed from the empty set give the active members, at every point of any history); effect-aware composition Proofs/ComposeC.lean, Proofs/Replay.lean; the counter: C08H.num_members_exact_always",
            "AccumulatingRuntime yields the same effects in the same order": "theorem over the FIFO queue model: accumulating_runtime_is_fifo; the real type is run side by side on every search history",
        },
        RULE_HIST + "search: notification replay oracle (mirror set vs iter_members/num_members after every call, state machine of Active/Idle/Defunct/Rejoin with causes) on every history, with a twin instance driven through AccumulatingRuntime.",
        ["histories in which a call fails with an Encode error (header larger than max_packet_size) stop being judged from that call on"],
    ),
    "C09": P(
        "One record per address; identities only move forward; own address never active",
        {
            "never two records with one address; grows only for new addresses": "theorem (full, every reachable state — any history of public calls, inputs and RNG draws): C09H.one_record_per_address_always, C09H.address_determines_record; per update, every RNG draw: one_record_per_address, known_address_keeps_addresses, grows_only_for_new_addresses",
            "… in every instance of every cluster, at every moment": "theorem (full, cluster level): C09S.one_record_per_address_everywhere — in every reachable cluster (NetReach: datagrams late, repeated, misdelivered or lost, timers in any order, API calls at any time) every instance lists one identity per address, counts its active members exactly and keeps one pending update per address; C09S.every_node_is_reachable (Proofs/NetNodes.lean: the nodes of a reachable cluster are reachable states, so every single-instance whole-history theorem applies cluster-wide)",
            "identity replaced only by a conflict winner, reported as Rename": "theorem (full): replaced_only_by_conflict_winner, rename_is_notified",
            "own address never active": "theorem (full, every state reachable by any history of public calls with change_identity used as documented — same address, or an address without an active record): C09H.own_address_never_active_always, C09H.own_address_never_active_step (invariant OwnInv through every model function, Proofs/OwnInv.lean); per update: own_address_never_active, C19.own_address_updates_become_down",
            "data from own identity/address rejected before any change": "theorem (full): data_from_own_address_is_rejected",
            "payload of a superseded or Down sender discarded": "theorem (full, any payload, any codec): dead_sender_payload_is_discarded (once the header update leaves the sender inactive the outcome is inactiveSender's, whatever follows the header)",
            "never falls back to a superseded identity": "theorem (full, histories of any length without a forget-timer): C09H.generation_never_goes_back_step, C09H.generation_never_goes_back (invariant GenInv, Proofs/GenInv.lean: an address listed at generation >= g stays listed at generation >= g); per update: replaced_only_by_conflict_winner",
        },
        RULE_HIST + "search: per-call oracle on real instances over domains with three generations per address including the own address (duplicate addresses, active own-address records, size vs addresses told, replacement by non-winners, missing Rename, generation fallback, payload of dead senders).",
        ["change_identity is only called with an identity whose address is not currently listed (documented use); histories are not judged after a call that violates this",
         "identity laws (see C01)"],
    ),
    "C10": P(
        "Incarnation discipline, self-refutation and reaction to one's own death",
        {
            "refutation: suspicion at k >= own makes the incarnation k+1 (> k), older suspicion leaves it alone, identity kept": "theorem (full below MAX, any codec/oracle): suspicion_is_refuted, refutation_exceeds_suspicion (over the generated comparison table)",
            "Alive about self ignored; reset puts the incarnation back to 0": "theorem (full): alive_about_self_is_ignored, reset_restarts_incarnation",
            "Down about self: Defunct unless a differing, winning renewed identity exists": "theorem (full): no_rejoin_without_winning_identity, down_without_renewal_is_defunct, bump_renews_to_a_winner",
            "incarnation never decreases while an identity is in use (whole histories)": "theorem (full, any history of public calls without change_identity/reuse_down_identity, any inputs and RNG; from any state): C10H.incarnation_never_decreases_step, C10H.same_identity_incarnation_monotone, C10H.incarnation_monotone_over_histories (invariant IncInv through every model function, Proofs/IncInv.lean)",
            "never fabricates incarnations of others": "theorem (full, whole histories, any codec): C10H.nothing_fabricated_step, C10H.nothing_fabricated_over_histories — every member record, the probe target and every pending update (the bytes of an encoded member) stay within the incarnations the inputs carried (invariant TellInv, Proofs/TellInv.lean); that a datagram's member section is made of backlog entries (C15) or listed active members (C07.feed_candidates) ties this to what is sent",
            "nothing is fabricated anywhere in the cluster": "theorem (full, cluster level: any number of instances, datagrams delivered late, repeatedly, to the wrong instance or never, timers in any order, API calls at any time except apply_many, any RNG draws; codec reads back the wire-range headers and members it wrote — proven for the four codec models, instantiated for postcard): C10S.nothing_fabricated_in_the_cluster — every member record, probe target and pending update of every instance is about an identity x at an incarnation at most toldBy sent x, the highest incarnation x itself put into the header of a datagram it sent; C10S.nothing_fabricated_on_the_wire (the same for whatever a receiver will parse out of any datagram in flight), C10S.announced_incarnations_are_real (the log holds only headers of datagrams really handed to a runtime). Model: FocaModel/Net.lean (nodes, wire, timers, ghost log); Proofs/NetInv.lean (NetReach, NetInv, shape_dataOk: what is parsed out of a datagram of the documented shape are members the sender wrote, decodeMembers_take), on top of Proofs/SentInv.lean with the bound τ of WireInv",
            "rejoin gossips Down(old)": "theorem per call: C05.told_down_renews_identity, C18 / C10 lemmas on change_identity (the Down update about the previous identity is enqueued before the gossip); over histories: search and correspondence",
        },
        RULE_HIST + "search: per-call oracle over the boundary incarnations 0/1/65534/65535, suspicions older/equal/newer than own, all four renew policies (none, bump, same, lose).",
        ["histories stop being judged after an Encode error (header larger than max_packet_size)"],
    ),
    "C11": P(
        "Suspicion timeout takes effect iff unrefuted; Down is final until forgotten",
        {
            "effect iff same identity, same incarnation, not Down": "theorem (full): timeout_on_same_identity, timeout_on_superseded_identity (over the generated can_change table)",
            "stale-epoch timeout: no effect at all": "theorem (full): stale_timeout_is_noop; epoch_change_makes_pending_timeouts_stale (reset, going Idle and going Defunct each move the token to a different value - over the counter arithmetic the translator reads from the three sites - so a timeout raised before the change is stale afterwards; added after seeded C11-4/C11-7, a saturating token in reset(), were no longer reported once the translator made the model follow the source)",
            "cancelled timeout: no state change, no datagram (no TurnUndead), no notification": "theorem (full, for states whose connection state agrees with the member count): cancelled_timeout_is_noop, unsuccessful_summary_is_silent - false before the fix: commit for finding F2",
            "Down never changes": "theorem (full): down_is_terminal, C01.down_is_final",
            "a Down identity never becomes active again; its record goes only by its forget-timer or a newer identity, over whole histories": "theorem (full): C11H.down_identity_never_active_again — from any reachable state in which x is recorded Down, over any further history of public calls (any batches, datagram bytes, timers incl. suspicion timeouts and forget-timers of other identities, change_identity, any RNG draws) without a forget-timer for x or a newer identity of its address, the address of x stays listed, its one record is x as Down or an identity of a higher generation, and x is never active; C11H.down_is_final_until_forgotten (history), down_stays_down_step (one call); Proofs/DownInv.lean; the hypothesis is the point the property names (example: after its forget-timer the identity rejoins)",
            "effective timeout: MemberDown, Down gossip, forget timer, TurnUndead; forget-timer removes exactly that identity": "theorem (full): effective_timeout (exact effects in order: forget-timer, MemberDown, Down update enqueued with full transmissions, connection state re-evaluated, TurnUndead iff notify_down_members), forget_timer_removes_exactly_that_identity, forget_timer_for_another_identity_is_noop",
        },
        RULE_HIST + "search: per-call oracle judging every ChangeSuspectToDown timer the instance itself scheduled (effective vs cancelled vs stale), plus Down-finality tracking across the history.",
        ["a duplicate delivery of a timeout after its record was forgotten and an older identity of the address reappeared is the documented excluded point (the timer's identity wins the conflict)"],
    ),
    "C19": P(
        "Foca never chooses its own address as a destination",
        {
            "periodic announce to down members never targets the own address": "theorem (full, any RNG draws): announce_to_down_never_own_address - false before the fix: commit for finding F5",
            "gossip / periodic announce / broadcast targets are active listed members, hence not the own address": "theorem (full given the invariant): chosen_targets_are_active_members, chosen_targets_not_own_address",
            "invariant: no active record bears the own address": "theorem (full, every reachable state under documented change_identity use): C19H.chosen_targets_never_own_address_always discharges the hypothesis of chosen_targets_not_own_address in every such state; per update: own_inactive_preserved, own_address_updates_become_down",
            "probes": "theorem (full, every reachable state, every reshuffle): C19H.probe_target_never_own_address_always, C19H.probed_member_never_own_address_always",
            "replies": "theorem per call: replies_go_to_the_sender (the reaction to any message sends at most one datagram, back to the sender or, for the two relay legs, to the target the peer named), C19H.no_reply_to_own_address (data from the own address is refused before anything happens), C09.dead_sender_payload_is_discarded / inactiveSender (TurnUndead back to the sender)",
            "every datagram of every call, over whole histories": "theorem (full): C19H.datagrams_avoid_own_address — in every state reachable with change_identity used as documented, every datagram any further call sends (any input, bytes, timer, RNG draws; probes, indirect-probe requests, gossip, broadcasts, periodic announces incl. those to Down members, feeds, direct replies, TurnUndead notices, the gossip of an identity change) goes to an address other than the instance's own, except destinations the call's input named itself (C19H.namedByInput: announce(dst), the target of a relayed PingReq/IndirectAck, the member of a delivered suspicion timer); C19H.suspicion_timers_name_other_addresses (the suspicion timers foca schedules never name the own address, so with timers delivered as scheduled the last exemption is empty); step: C19H.datagrams_avoid_own_address_step; Proofs/InvE.lean (PresE: invariants over state and effects with side conditions), Proofs/SendInv.lean (SendInv, the walk over every function, changeIdentity_other for the new address)",
        },
        RULE_HIST + "search: destination of every send compared with the instance's address on histories that teach it older/newer identities of its own address, all periodic tasks enabled.",
        ["relays towards a target named by a peer (IndirectPing, ForwardedAck) and explicit announce(dst) are outside the guarantee",
         "change_identity only to unlisted addresses (documented use)"],
    ),

    "C12": P(
        "A probe succeeds only on genuine evidence; indirect probing is routed correctly",
        {
            "success only on an Ack of the current number from the probed member or a ForwardedAck from an asked, not yet counted helper": "theorem (full): succeeded_iff, ack_counts_only_from_target, ack_changes_only_the_flag, forwarded_ack_counts_only_from_asked, failed_only_without_evidence, start_resets_evidence (over the generated Probe::succeeded)",
            "a round ends without suspicion only if evidence arrived since it started, over whole histories": "theorem (full): C12H.round_answered_only_on_evidence — from the start of a round for m under number N, over any history of public calls (any bytes, batches, timers incl. further probe timers, API calls, identity changes, RNG draws): if the probe still targets m under N and take_failed has nobody to suspect, one of the calls in between delivered a datagram whose header is an Ack numbered N from m or a ForwardedAck numbered N; C12H.no_evidence_step / no_evidence_history (invariant NoEv); Proofs/ComposeQ.lean (probe-aware composition with the two evidence writes as hypotheses about the header being handled), Proofs/EvidenceInv.lean; worked example: member learnt, probe timer, Ack",
            "once answered a round stays answered until the next probe timer": "theorem (full): C12H.evidence_suffices — once the round for m under N counts as answered, over any history of calls other than a probe timer (stale or contradicting gossip, duplicate or foreign Acks, other timers, API calls), while the probe still targets m under N take_failed has nobody to suspect; C12H.answered_stays_answered_step (invariant HasEv); with round_answered_only_on_evidence this characterises RoundAnswered, the timing premise of C02S",
            "an Ack that is handled before the next probe timer answers the round; the probed instance sends that Ack (the round trip, across both instances)": "theorem (full, for instances holding only Alive records about a cluster with pairwise different addresses — the fault-free setting of C02): C12S.probed_instance_answers (a calm instance that handled a Ping n addressed to it with result Ok and is connected afterwards has sent, as the last datagram of the call, at most max_packet_size bytes to the Ping's source whose header a peer reads back as Ack n from the instance's identity and incarnation), C12S.ack_answers_the_round (handling Ack n from m records the evidence), C12S.round_answered_when_ack_handled (from the start of a round on m under N by a connected instance, over any history without a probe timer that contains the successful handling of an Ack N from m, the next probe timer finds the round answered — also when the round was dropped or the instance went idle and came back in between), C12S.probe_round_trip (both instances: the very bytes B sent when it handled A's Ping, handled by A before its next probe timer, answer A's round; nothing assumed about those bytes). C12S.probe_timer_pings_its_target (any state: a current probe timer on a connected instance that returned Ok either started no round or put the probe on a member under the next number and ended with exactly three effects — the Ping, beginning with the encoded header Ping number from the instance's identity, the indirect-probe timer, the re-armed probe timer); 'connected afterwards' discharged: C12S.calm_receiver_ends_up_connected (a reachable calm instance that is not defunct is connected after successfully handling a calm datagram addressed to it), hence C12S.not_defunct_instance_answers_ping (the property's own wording) and C12S.probe_round_trip_not_defunct. Proofs/RoundTrip.lean: handleData_ok (run decomposition of a successful handle_data into its stages), calm_data_reaches_reply, replyStage_ok, probeStartNext_ok / probeRandomMember_ok (run decomposition of a probe round), ConnIs (what leaves the connection state alone), adjust_connects, calm_receiver_connected, invariants Tgt (only a probe timer starts a round) and StageSince.step; worked example: the C12H cluster meets every premise",
            "indirect requests: only without Ack, at most num_indirect_probes, distinct... active members, never the target": "theorem (full): indirect_helpers, indirect_timer_guards ('distinct' follows from one-record-per-address, C09)",
            "Ping answered with Ack of the same number; relay preserves origin, target and number; requests naming the instance rejected": "theorem (full): ping_is_acked, ping_req_is_relayed, indirect_ping_is_answered, indirect_ack_is_forwarded, relay_for_ourselves_is_rejected",
            "failed round: probed member becomes Suspect and exactly one suspicion timeout is scheduled": "theorem (full): failed_round_schedules_exactly_one_timeout (exactly one ChangeSuspectToDown for that identity, incarnation and epoch, also when the member was already Suspect), unanswered_member_becomes_suspect, refuted_member_is_left_alone, failed_round_forgotten_member; that a round without evidence is what take_failed reports: failed_only_without_evidence",
        },
        RULE_HIST + "search: round-tracking oracle on real instances: evidence seen (Ack/ForwardedAck sender x probe number x timing) vs. the probe state and the outcome of the next probe timer, PingReq fan-out, the reply table and the four IndirectForOurselves rejections.",
        ["histories stop being judged after an Encode error; a round whose probe timer call returns an error is not judged"],
    ),
    "C13": P(
        "Timer epochs: recurring loops are never lost, duplicated or resurrected",
        {
            "stale-epoch timers (other than forget-timers) are ignored without any effect": "theorem (full, all six token-bearing kinds): stale_timer_is_noop",
            "every Idle/Defunct/reset moves the token on; becoming active starts exactly one loop per kind in the current epoch": "theorem (full): epoch_changes_bump_token, token_moves, loops_started_on_connect, periodic_announce_rearms",
            "set_config cannot change probe timing nor enable a periodic task": "theorem (full, over the generated guard): set_config_cannot_enable_loops",
            "Timer ordering helper: SendIndirectProbe before ProbeRandomMember, injective on kinds": "theorem (full, over the generated Timer::seq): indirect_sorts_before_probe, seq_separates_kinds",
            "exactly one outstanding probe timer and one per enabled periodic task while active, none effective otherwise (whole histories)": "theorem (full for all four loops; timers delivered exactly once, in any order, interleaved with any calls including set_config; assumptions as in the property: the u8 token does not wrap onto an outstanding timer [FreshFor, fewer than 256 epoch changes per call], no send of a probe round fails with Encode): C13H.exactly_one_timer_per_loop over C13H.LoopHistory, corollaries exactly_one_probe_timer, exactly_one_timer_per_enabled_task; steps loop_step_other, loop_step_probe, loop_step_periodic; Proofs/Timers.lean (TimInv per loop kind with a ghost epoch counter in the model state; probeRandomMember_rearms, periodic*_round), Proofs/Quiet.lean",
            "no error under deadline-order delivery": "theorem (full): C13H.deadline_order_never_errs — at any point of any C13H.TimedHistory (timers carry the time they are due = time of the scheduling call + the delay foca asked for; the runtime always delivers one that is due no later than any other outstanding one, however late and at arbitrary times, interleaved with any datagrams and API calls; probe_rtt < probe_period whenever a probe round starts; FreshFor / fewer than 256 epoch changes per call) the delivered timer returns Ok or the Encode error of a send, never NotConnected or IncompleteProbeCycle. Invariant C13H.TInv over timed histories (TimedHistory.inv): while the probe cycle is incomplete the SendIndirectProbe timer of the round is outstanding and due strictly before every effective probe timer (StageB), a probe with a target is held only while connected (TargetOk), plus the one-effective-timer accounting; steps tinv_step_other, tinv_fire_probe. Proofs/Stage.lean: stage_step_other (what any other call can do to target, reached-flag, token, connection state: StageSince, via the probe-aware leaves LeavesP of ComposeC), indirect_timer_completes_stage, probeRandomMember_shape (the only probe timer of a round is its last effect, due after probe_period; a new target comes with its SendIndirectProbe timer due after probe_rtt); Proofs/ErrKinds.lean: ErrOnly.handleTimer_other (every other timer kind fails only with a send's Encode). Out of order: C13H.outstanding_probe_timer_errors — at most IncompleteProbeCycle, and the loop is re-armed (loop_step_probe)",
        },
        RULE_HIST + "search: histories in which every timer the instance schedules is delivered exactly once (in deadline order or in random order), interleaved with datagrams and API calls; outstanding timers per epoch counted after every call.",
        ["the runtime delivers each scheduled timer exactly once; fewer than 256 epoch changes between issue and delivery", "FitsAllHeaders (an Encode error in probe_random_member loses the probe loop: the crate's own NEEDSWORK)"],
    ),
    "C14": P(
        "Round-robin probing: every active member is probed within 2n-1 rounds",
        {
            "each round picks an active member, never a Down one; nobody only when no member is active": "theorem (full): next_returns_an_active_member, next_none_iff_no_active",
            "scan order: first active at or after the cursor, wrap to the first active and request a reshuffle": "theorem (full): next_scans_forward, next_wraps_and_reshuffles, reshuffle_condition",
            "every window of 2n-1 rounds pings each active member": "theorem (full: any list, any number and arrangement of Down records, any cursor position, every permutation each reshuffle may produce, runs of any length): C14H.window, C14H.every_window (measure `bound` decreasing per round, Proofs/RoundRobin.lean), tied to the instance model by C14H.members_next_is_a_round; tightness witness (2n-2 is not enough) as a decided example; search over n <= 8 (12 thorough), 0-4 Down records, random join/removal prefixes and many seeds, on real instances",
        },
        "search: real instances with n active and d Down members built through random batches of joins, removals and interleaved rounds, then 5n+3 consecutive probe timers; the destinations of the Pings are checked (one per round, active, not own) and every window of 2n-1 rounds must contain every active member; distinct by history hash, non-trivial when n >= 2. " + RULE_HIST,
        ["the set of members is stable during the window (the property's hypothesis)"],
    ),
    "C15": P(
        "Dissemination accounting: updates gossiped at most max_transmissions times",
        {
            "one update per address, the most recently accepted one": "theorem (full, every reachable state — any history, inputs, RNG and heap tie order): C15H.one_update_per_address_always (step: C15H.one_update_per_address_step; a send is exactly one fill: C15H.send_touches_backlog_by_one_fill); per enqueue: one_update_per_address, enqueue_keeps_other_addresses",
            "each appearance costs exactly one transmission; dropped at zero; at most once per datagram": "theorem (full, any tie order): each_appearance_costs_one_transmission",
            "never omits a pending update that still fits; precedence to more transmissions remaining": "theorem (full): nothing_that_fits_is_omitted, higher_priority_first, priority_order (over the generated Entry::cmp)",
            "Feed/Announce/TurnUndead/Broadcast consume nothing; only successful applications are enqueued": "theorem (full): non_piggybacking_kinds_consume_nothing, only_successful_applications_are_enqueued",
            "applying updates with broadcasting disabled leaves the backlog untouched": "FALSE as stated (open known finding F10): C15H.no_broadcast_full_is_false — a decided witness in the model (a Suspect update about the instance itself in a do_broadcast=false batch makes it gossip the refutation; the pending update loses a transmission), replayed on the real crate on every run (corpus/C15/F10-nobroadcast-self-update.json); what holds is a theorem (partial): C15H.no_broadcast_batch_about_others_partial (a batch naming no member of the own address leaves the backlog exactly as it was, whatever the outcome), C15.no_broadcast_leaves_backlog_untouched (per update)",
            "at most max_transmissions over the whole life of an update": "theorem (full, histories of any length): C15H.transmissions_are_conserved, C15H.at_most_max_transmissions_over_its_life (every write of an address's entry costs it exactly one transmission, only a new update about that address gives any back: Proofs/Lifetime.lean), C15H.each_write_costs_its_entry_one_transmission, and C15H.backlog_changes_only_by_enqueue_and_fill (any public call changes the instance's backlog by such operations only: Proofs/UpdReach.lean); the tie between 'entry written' and the bytes of the datagram is the per-call theorem each_appearance_costs_one_transmission",
        },
        RULE_HIST + "search: accounting oracle replaying every pure-send call against the hooked backlog (remaining transmissions): only pending updates are written, exact decrement, leave at zero, nothing that fits omitted, precedence; tight packet sizes, max_transmissions in {1,2,3,4,255}.",
        ["BinaryHeap pops a maximal element (the tie order among equal priorities is an oracle of the model, validated per datagram)"],
    ),
    "C16": P(
        "Custom broadcasts: delivered intact, only where allowed, invalidated promptly",
        {
            "attached only on allowed kinds, to eligible members, framed u16 length ++ data, fitting the space": "theorem (full, arbitrary handler): attachment_gate, kinds_that_may_carry_custom, tail_is_framed_items",
            "each appearance costs one transmission; invalidated items leave at once": "theorem (full, arbitrary invalidation relation): each_item_costs_one_transmission, invalidated_items_leave, add_broadcast_stores_whole_item",
            "receiver hands the handler exactly the items, in order, with the sender": "theorem (one loop iteration, full): receive_loop_step",
            "broadcast(): nothing when empty; at most num_indirect_probes eligible active targets": "theorem (full): broadcast_with_empty_backlog, broadcast_targets",
            "whole-history bound of max_transmissions per item": "theorem (full, arbitrary handler key type and invalidation relation, histories of any length): C16H.item_written_at_most_its_transmissions, C16H.item_at_most_max_transmissions, C16H.each_item_written_costs_one_transmission (Proofs/LifetimeG.lean) and C16H.custom_backlog_changes_only_by_enqueue_and_fill (Proofs/CustomReach.lean)",
            "broadcast() stops when drained": "theorem (full): broadcast_stops_when_drained, broadcast_continues_while_pending, broadcast_with_empty_backlog",
        },
        RULE_HIST + "search: table-driven handlers (four invalidation relations, recipient deny masks), items of 1..7 bytes, hooked backlog accounting, handler call log compared with the items of every accepted datagram.",
        ["the handler derives the key from the item bytes alone (harness handlers do); BroadcastHandler does not panic"],
    ),
    "C17": P(
        "Deterministic, and rejected input leaves no trace",
        {
            "each rejected class changes nothing (state, effects, oracle/RNG position)": "theorem (full): oversized_datagram, undecodable_header, own_identity_or_address_as_source, malformed_right_after_header, not_addressed_to_the_instance, undecodable_member_list, stale_epoch_timer, reuse_when_not_undead, change_to_same_identity, invalid_config, empty_or_oversized_broadcast, accept_payload_iff",
            "inserting any number of them anywhere alters nothing of the rest": "theorem (full): insertion_is_invisible (induction over the history)",
            "determinism": "the model's step is a function by construction; the implementation is checked by twin runs in the search",
        },
        RULE_HIST + "search: twin runs on the real crate: a base history, the same history with rejected inputs of all 13 classes inserted at random points (built for the state at that point), and a repeat of the base history; all output streams compared line by line.",
        [],
    ),
    "C20": P(
        "Bundled codecs round-trip exactly and fail cleanly",
        {
            "every header and member round-trips, consuming exactly the bytes produced, whatever follows": "theorem (full for the byte-level models of the fixed, postcard and bincode codecs over all eleven message variants and the whole u16/u8 ranges): header_roundtrip, member_roundtrip, id_roundtrip, msg_roundtrip, fixed_laws, postcard_laws, bincode_laws, codecs_roundtrip",
            "decoding never reads past its input; truncated input is an error; over-long varints and wide markers are rejected": "theorem: unleb_suffix, empty_input_is_an_error, postcard_rejects_overlong_varint, bincode_rejects_wide_markers",
            "the models are the crates' wire formats": "tie: codec-level correspondence (real decoder vs. Lean decoder on valid, truncated, corrupted and random bytes) plus byte-exact comparison of every datagram in the correspondence run; serde derive field order is trusted and checked this way only",
            "encoding into a short buffer is an error, Foca's datagrams stay well-formed": "search on the real codecs (every buffer size 0..len) and C07's theorems for the send path (model of the failed-encode space accounting)",
        },
        "search: random headers/members over boundary values (0,1,127,128,250..252,255,256,16383,16384,65534,65535) encoded with the real codecs, then left valid / truncated at every length / corrupted / extended / replaced by random bytes; real decoder vs Lean decoder through the driver; round trip with a suffix; encode into every buffer size below the encoded length. " + RULE_HIST,
        ["serde derive visits fields in declaration order (checked by correspondence, not proved)"],
    ),

    "C02": P(
        "Fault-free cluster: full discovery and zero false suspicion",
        {
            "Alive knowledge never creates suspicion (a calm list stays calm under Alive updates, any RNG draw, any conflict outcome)": "theorem (full): alive_updates_keep_the_list_calm",
            "sender liveness learned from every header; Ping answered with its Ack; an acked round raises no suspicion; Announce answered with Feed": "theorem (full): sender_is_learned_from_header, ping_gets_its_ack, acked_round_raises_no_suspicion, announce_gets_a_feed",
            "zero false suspicion over whole fault-free cluster runs, given that every probe round is answered in time": "theorem (full, cluster level): C02S.calm_cluster_stays_calm — any number of fresh instances with pairwise different addresses; datagrams delivered late, repeatedly, to the wrong instance or never; timers in any order; announce/gossip/broadcast/add_broadcast/set_config at any time; any RNG draws; codec laws (proven for the four codec models): if every probe timer that fires finds its previous round answered (RoundAnswered), then at every moment every record of every instance is Alive and about a cluster identity, no suspicion timer is pending anywhere and every datagram on the wire carries only Alive claims and is not a TurnUndead; C02S.wire_carries_only_alive_claims (what a peer parses); C02S.calm_call_stays_calm (one call: suspicion arises only from a failed probe round or a Suspect/Down claim, departure or identity change); Proofs/CalmInv.lean (a walk over the calm paths of every function), Proofs/CalmNet.lean (CalmReach, CalmNet); worked example: announce + delivery",
            "views only grow in a fault-free run (the safety half of discovery); nobody ever refutes": "theorem (full, cluster level): C02S.views_only_grow — over any further fault-free run (CalmRun) an instance that lists a member keeps listing that very identity: no forget-timer ever exists (part of the CalmNet invariant), no identity is superseded; calm_cluster_stays_calm also gives: every instance and every record stays at incarnation 0; Proofs/CalmGrow.lean (CalmStep/CalmRun, GenInv per node)",
            "the premise itself (every probe round is answered before the next probe timer)": "theorem for the part that is logic, partial for the part that is time: C12S.probe_round_trip_not_defunct reduces RoundAnswered to deliveries only — if the probed instance (reachable, not defunct) handled the Ping (Ok) and the prober handled the very bytes it sent back (Ok) before its next probe timer, that timer finds the round answered, whatever else happened in between (C12S.probed_instance_answers, ack_answers_the_round, round_answered_when_ack_handled; imported by Props/C02S.lean). What remains with the discrete-event simulator on the real crate is that, under latencies below probe_rtt/4 and timers on time, both deliveries do happen within one probe period (a statement about the network and the clock, not about foca's state), and that no handle_data of a fault-free run returns an error",
            "full discovery within a linear number of probe periods": "partial and FALSE in general: holds in the simulator whenever every joiner announces to a settled member or to one common seed; fails when a joiner announces to a member whose own view is not settled yet (KNOWN FINDING F7, protocol limitation, not repaired)",
        },
        "search: discrete-event simulation of 2..6 (thorough: ..12) real instances, latencies below probe_rtt/4, three join schedules (settled random seed, one common seed with simultaneous joiners, rapid joins through unsettled seeds), fan-out 1..3, max_transmissions 1..10, periodic gossip/announce on or off, packet sizes from feeds-the-whole-cluster to 1400 and (safety only) too small; safety judged after every event, discovery after 3n+6 periods; distinct by parameter hash, non-trivial when n >= 3. " + RULE_HIST,
        ["transport delivers every datagram within probe_rtt/4 and the runtime fires every timer on time (simulator)", "discovery clause: known finding F7 for unsettled seeds"],
        quick={"corr_cases": 20000, "search": 400000}, thorough={"corr_cases": 400000, "search": 12000000},
    ),
    "C03": P(
        "Completeness: crashed or departed members are reported Down everywhere, bounded",
        {
            "leave_cluster queues Down(self), gossips it to active members, ends Defunct": "theorem (full): leave_declares_itself_down, leave_queues_down_update",
            "a departed member stops answering and (since the fix for F8) no longer refutes suspicion": "theorem (full): departed_member_stops_answering, departed_member_does_not_refute",
            "receivers of the Down gossip report MemberDown at once; a silent member is handed over for suspicion": "theorem (full): down_update_is_reported_at_once, silent_member_is_suspected (with C11/C12/C14 theorems)",
            "a silent member is suspected by the next probe timer, and an unrefuted suspicion ends in Down with MemberDown notified (the part of detection that is logic, whole calls)": "theorem (full, any state with one record per address — C09H: every reachable state —, any RNG draws, whatever the call returns): C03H.unanswered_round_raises_suspicion (a connected instance's current probe timer after a complete cycle whose target did not answer, the target's record still active and not known at a higher incarnation: afterwards the record is Suspect at the round's incarnation and the suspicion timeout for that identity, incarnation and epoch is scheduled after suspect_to_down_after), C03H.unrefuted_timeout_declares_down (that timeout, in the same epoch, finding the record at that incarnation and not Down: afterwards the record is Down, MemberDown notified, the forget-timer scheduled — also when the courtesy TurnUndead cannot be encoded); the output of the first is the premise of the second (worked example); Proofs/Detect.lean (applyExisting_lands, suspect_update, the effect-aware frames Kept / Listed); which round reaches the member: C14H.every_window (2n-1)",
            "every survivor reports every failed member within (2n+1) periods + suspect_to_down_after; no survivor declared Down": "partial: the real-time composition (rounds and timers on the clock, gossip reaching the others) is explored by the simulator only (every subset failing, crash or leave, at random event indices)",
        },
        "search: simulator, directly formed clusters of 2..6 (thorough ..12) real instances, every non-empty proper subset failing (crash or graceful leave) at a random event index, latencies and seeds varied; per survivor the time of MemberDown for each failed member is compared with the bound; no MemberDown/Defunct/Rejoin for survivors. " + RULE_HIST,
        ["timers on time, latencies below probe_rtt/4 (simulator)"],
    ),
    "C04": P(
        "A single lost datagram never gets a live member declared Down",
        {
            "a higher header incarnation refutes the suspicion at the receiver; the pending timeout then does nothing (no TurnUndead since the fix for F2)": "theorem (full): higher_incarnation_refutes_at_receiver, refuted_timeout_does_nothing, C11.cancelled_timeout_is_noop",
            "the suspected member bumps its incarnation strictly above the suspicion; a suspicion needs the current incarnation": "theorem (full): suspected_member_bumps_incarnation, suspicion_needs_current_incarnation",
            "a refuted suspicion never takes effect, over whole histories": "theorem (full): C04H.refuted_suspicion_never_takes_effect — from any reachable state in which x is recorded above the suspected incarnation i, over any history of public calls without the forget-timer of that address (stale gossip at or below i, repeated suspicions, any bytes, any RNG): every record bearing x stays above i or Down, and the timeout for (x, i), whenever and however often it fires, leaves the member list as it is, applies nothing and changes nobody's activity; C04H.refutation_is_final(_step), timeout_past_record; Proofs/RefInv.lean",
            "the refutation is any datagram from the suspected member at a higher incarnation (whole call)": "theorem (full, any state, any message kind and payload, any RNG): C04H.datagram_from_member_refutes — an instance that successfully handled a datagram addressed to it whose header comes from x at an incarnation above i records x above i afterwards (or as Down, or its address under a higher generation): RefInv x i, the premise of refuted_suspicion_never_takes_effect; with C10.refutation_exceeds_suspicion (every datagram the suspected member sends after learning of the suspicion carries a higher incarnation) the refutation loop is closed up to delivery: one datagram of any kind from the member before the timeout. Proofs/Refute.lean (updateKnown_establishes, applyUpdate_establishes), run decomposition handleData_ok",
            "no MemberDown/Defunct/Rejoin anywhere and re-convergence after any single drop": "partial: real-time race between refutation and timeout explored by the simulator (every datagram index in a window, n = 2..6, notify_down_members on/off, renewable or not)",
        },
        "search: simulator, formed cluster, exactly one datagram (by send serial number, any kind) dropped in a window after warm-up; oracle: no MemberDown/Defunct/Rejoin afterwards and everybody lists everybody Alive at the horizon. " + RULE_HIST,
        ["timers on time, latencies below probe_rtt/4 (simulator)"],
    ),
    "C05": P(
        "Auto-rejoin: a healed partition converges back without hand-holding",
        {
            "a Down sender is told so; a renewable instance told it is down switches to a differing, winning identity of its address, restarts at incarnation 0 and notifies Rejoin": "theorem (full): down_sender_is_told, change_identity_resets, told_down_renews_identity",
            "the renewed identity supersedes the Down record of its predecessor (Rename + MemberUp); Announce is accepted by address": "theorem (full): renewed_identity_supersedes_down_record, announce_is_accepted_by_address",
            "datagrams to a previous identity are ignored": "theorem (full): datagrams_to_a_previous_identity_are_ignored - the mechanism behind finding F9",
            "any datagram from the renewed identity supersedes the record of its predecessor, for good (whole call; how the cluster accepts a rejoin)": "theorem (full, any reachable state, any message kind and payload, any RNG): C05H.renewed_member_supersedes_its_record — after successfully handling a datagram addressed to it from a newer identity (higher generation) of an address it lists under x (typically as Down after the partition), no record bears x any more and the address is listed at a generation at least the sender's; by C09H.generation_never_goes_back it stays so over any history without a forget-timer. Proofs/Rejoin.lean (applyUpdate_lists, handleData_lists_sender: run decomposition + the Full instance of GenInv); worked example: Down(2,gen 0) + Gossip from (2,gen 1) gives Alive(2,gen 1)",
            "after the heal every live instance lists every other within a bounded number of announce periods": "FALSE on the current tree: KNOWN FINDING F9 (about 4-5% of simulated healed partitions end with every node renewed at the same time and Disconnected forever); every other simulated run converges; not a theorem",
        },
        "search: simulator, clusters of 3..6 (thorough ..12), every two-sided split (bit mask) including single-node sides, partition long enough for mutual Down, heal, 8 announce-to-down periods; oracle: Rejoin never Defunct, winning identity, Active after Rejoin, full mutual listing under current identities. " + RULE_HIST,
        ["renewable identities (bump), notify_down_members and periodic_announce_to_down_members enabled", "known finding F9"],
    ),
    "C18": P(
        "Reply cascades terminate: no message storms",
        {
            "every request kind has exactly one automatic answer, of strictly lower rank; non-request kinds have none; one datagram per answer": "theorem (full): replies_descend, reply_table, one_datagram_per_answer",
            "idle/defunct instances do not reply; inactive senders get at most one TurnUndead": "theorem (full): disconnected_instances_do_not_reply, inactive_sender_gets_at_most_turnundead",
            "two members that consider each other Down do not bounce TurnUndead": "theorem (full): turnundead_from_down_member_is_not_answered_when_defunct - false before the fix: commit for F3",
            "every delivered datagram causes at most a bounded number of new datagrams": "theorem (full, any bytes, any state, any RNG draws): C18H.bounded_fanout_per_datagram — at most k*(u+1)+1 datagrams, k = num_indirect_probes, u = number of member updates the datagram carries (one reply/relay/TurnUndead notice, plus one gossip round per update about the instance itself that makes it refute or renew); C18H.bare_datagram_fanout (k+1 for a datagram without updates); Proofs/FanOut.lean (Adds k n: keeps k, adds at most n datagrams; composition with explicit bounds)",
            "no cycle of automatic replies, at the level of datagrams": "theorem (full, any bytes, any state, any RNG draws): C18S.answers_descend — the datagrams sent while handling a delivered datagram are rounds of Gossip followed by at most one more datagram, the automatic answer, whose kind has strictly lower rank than the delivered kind (or a TurnUndead answering a TurnUndead from a sender considered down); every datagram is built by send_message around a header naming its destination; C18S.every_datagram_is_gossip_or_answer, answer_ranks_descend, rank_le_four, terminal_kinds_only_get_turnundead; Proofs/Kinds.lean (Says K: kinds of the messages in the effects), Proofs/KindsReply.lean (Answered)",
            "gossip rounds are caused only by updates naming the receiver (or a TurnUndead)": "theorem (full): C18S.fanout_counts_updates_about_receiver — at most k*(u+t)+1 datagrams, u = updates in the datagram naming the receiver's own address, t = 1 for a TurnUndead; C18S.quiet_datagram_gets_one_answer (a datagram that says nothing about its receiver and is not a TurnUndead causes at most one datagram: exchanges of such datagrams end after at most four hops); Proofs/FanOutSelf.lean (AddsA: address-aware counting)",
            "global termination of the exchange, fault-free clusters": "theorem (full, cluster level): C18S.calm_exchanges_end — in any cluster reached without a failed probe round (CalmReach; any number of instances, any history), with timers and API calls held, datagrams taken off the wire one at a time in any order by any instance: each delivery puts back at most one datagram of strictly lower rank (C18S.calm_delivery_gets_one_lighter_answer), so k deliveries lower the wire weight (rank+1 per datagram) by at least k, and it is at most 5 per datagram in flight; Proofs/CalmDrain.lean (weight, Net.consume, Drains), CalmSent.deliver (the calm walk parametrised by the kinds a call may send); worked example: the Announce of C02S's cluster is consumed and answered by a Feed",
            "global termination of the exchange among 2-3 instances in arbitrary mutual-knowledge states (suspect, down, renewed identities)": "partial: the well-founded measure must also account for refutation rounds (knowledge lattice, remaining backlog transmissions; DESIGN.md Appendix B) and is not formalised; explored by the simulator with timers held (cap 300 deliveries)",
        },
        "search: simulator with timers held: 2-3 real instances in random mutual-knowledge states (alive, suspect, down, newer/older identity; some left the cluster), all four renew policies, notify_down_members on/off, one initial datagram of each of the 11 kinds, deliveries until the network is empty; violation when more than 300 deliveries or more than a bounded fan-out per delivery. " + RULE_HIST,
        [],
    ),
}
