#!/bin/bash
# confirm_mutant.sh <worktree> <n>  : verifies patch<n>.diff/demo<n>.rs of a sub-agent in its scratch worktree
# prints: tests_with_patch=<pass|fail> demo_with_patch=<pass|fail> demo_without_patch=<pass|fail>
set -u
W=$1; N=$2
cd "$W" || exit 2
git checkout -q -- . ; rm -rf tests
git apply out/patch$N.diff || { echo "patch does not apply"; exit 2; }
T1=$(CARGO_NET_OFFLINE=true cargo test --offline 2>&1 | grep -E "^test result" | head -1)
mkdir -p tests; cp out/demo$N.rs tests/demo$N.rs
D1=$(CARGO_NET_OFFLINE=true cargo test --offline --features std,postcard-codec,bincode-codec --test demo$N 2>&1 | grep -E "^test result|^error(\[|:)" | head -2 | tr '\n' ' ')
git checkout -q -- src
D0=$(CARGO_NET_OFFLINE=true cargo test --offline --features std,postcard-codec,bincode-codec --test demo$N 2>&1 | grep -E "^test result|^error(\[|:)" | head -2 | tr '\n' ' ')
rm -rf tests
echo "suite_with_patch: $T1"
echo "demo_with_patch: $D1"
echo "demo_without_patch: $D0"
