#!/usr/bin/env python3
"""Writes /verif/MANIFEST.json from tools/props_meta.py (claimed properties) and properties.jsonl."""
import json
import os
import sys

ROOT = os.path.dirname(os.path.dirname(os.path.abspath(__file__)))
sys.path.insert(0, os.path.join(ROOT, "tools"))
import props_meta  # noqa: E402

ids = [json.loads(l)["id"] for l in open(os.path.join(ROOT, "properties.jsonl"))]
NOT_YET = {}
try:
    NOT_YET = json.load(open(os.path.join(ROOT, "tools", "not_claimed.json")))
except Exception:
    pass

checks = []
for pid in ids:
    if pid not in props_meta.PROPS:
        continue
    m = props_meta.PROPS[pid]
    full = [k for k, v in m["clauses"].items() if v.startswith("theorem")]
    partial = [k for k, v in m["clauses"].items() if not v.startswith("theorem")]
    text = ("Lean 4 theorems about a model of the code (lean/FocaModel/Props/%s.lean, whole-history statements in %sH.lean where present), re-checked on every run against "
            "decision tables regenerated from /repo/src, plus a correspondence run tying the hand-written model to the real crate "
            "and an implementation-side search that produces the replay. Theorem-backed clauses: %s. "
            "Clauses that are NOT closed by a theorem (correspondence + search only): %s."
            % (pid, pid, "; ".join("%s [%s]" % (k, m["clauses"][k]) for k in full) or "none",
               "; ".join("%s [%s]" % (k, m["clauses"][k]) for k in partial) or "none"))
    checks.append({
        "property_id": pid,
        "quick_cmd": "./check %s --tier quick" % pid,
        "thorough_cmd": "./check %s --tier thorough" % pid,
        "evidence_file": "evidence/%s.json" % pid,
        "replay_cmd_template": "./check %s --replay {path}" % pid,
        "engine": "lean-model",
        "level_claimed": {"category": "proof", "text": text, "design_ref": "DESIGN.md section 6 (%s) and 'Changes since round 0'" % pid},
        "level_note": "Trusted: Lean kernel + axioms propext/Classical.choice/Quot.sound only (audited per theorem on every run); the reading of the property as Lean statements; "
                      "the translator (tools/extract.py) for decision tables; the hand model, tied to the code by differential correspondence (bounded by the generator), not by proof; "
                      "the Rust harness. Assumptions: " + "; ".join(m["assumptions"]),
        "technique": "Lean 4 proof over an executable model + translator-regenerated decision tables + model/implementation correspondence (differential) + implementation-side counterexample search",
    })

na = [{"property_id": pid, "reason": NOT_YET.get(pid, "check not built yet in this session (the technique applies; see DESIGN.md section 6)")}
      for pid in ids if pid not in props_meta.PROPS]

manifest = {
    "version": 1,
    "setup_cmd": "./check --setup",
    "hooks": {
        "guard": "verif-hooks (cargo feature of the foca crate)",
        "enable": "the harness depends on foca with features = [\"std\", \"verif-hooks\", \"postcard-codec\", \"bincode-codec\"] (harness/Cargo.toml); nothing else enables it",
        "baseline_off_cmd": "cd /repo && cargo test --workspace --no-fail-fast --offline",
        "source_commits": ["a05e5d9", "e7e018f"],
        "add_only": True,
    },
    "engines": [
        {"name": "lean-model", "path": "lean/", "serves_properties": [c["property_id"] for c in checks],
         "kind_free_text": "Lean 4 model of the crate (Mathlib-free), property theorems in lean/FocaModel/Props, compiled line-protocol driver"},
        {"name": "harness", "path": "harness/", "serves_properties": [c["property_id"] for c in checks],
         "kind_free_text": "Rust harness: real foca instances, mirror RNG, correspondence against the Lean driver, property oracles, shrinking"},
        {"name": "translator", "path": "tools/extract.py", "serves_properties": [c["property_id"] for c in checks],
         "kind_free_text": "regenerates lean/FocaModel/Gen/Tables.lean from /repo/src on every run"},
    ],
    "checks": checks,
    "not_applicable": na,
    "notes": "All checks share one Lake project and one harness crate; ./check serialises builds with a lock. Fixed genuine defects are listed in known_findings.json (status fixed: they suppress nothing).",
}
json.dump(manifest, open(os.path.join(ROOT, "MANIFEST.json"), "w"), indent=1)
print("claimed:", [c["property_id"] for c in checks], "not claimed:", [n["property_id"] for n in na])
