#!/usr/bin/env python3
"""Translator: regenerates lean/FocaModel/Gen/Tables.lean from /repo/src on every run.

It understands a deliberately tiny Rust subset (see DESIGN.md 4.1): `match` on
unit-like patterns, `matches!`, comparisons on named integers, `&&`, `||`, `!`,
`.is_none()/.is_some()`, `.cmp(&x)`, `.then_with(|| e)`, literals.  Anything
outside the subset makes it exit non-zero naming the function: the tie between
source and model is then broken and `check` treats the property as no longer
shown to hold.
"""
import re
import sys
import os
import json

REPO = os.environ.get("FOCA_REPO", "/repo")


class TranslateError(Exception):
    pass


# --------------------------------------------------------------------------
# lexer


TOKEN_RE = re.compile(
    r"""
    (?P<ws>\s+|//[^\n]*|/\*.*?\*/)
  | (?P<attr>\#\[[^\]]*\])
  | (?P<str>"(?:[^"\\]|\\.)*")
  | (?P<num>\d[\d_]*(?:\.\d+)?(?:f64|u8|u16|usize)?)
  | (?P<id>[A-Za-z_][A-Za-z0-9_]*(?:!(?=\())?)
  | (?P<op>=>|::|&&|\|\||==|!=|>=|<=|\.\.|[{}()\[\],.;:!<>|&=+\-*/_?'#@%^$~\\])
    """,
    re.X | re.S,
)


def lex(src):
    pos = 0
    out = []
    while pos < len(src):
        m = TOKEN_RE.match(src, pos)
        if not m:
            raise TranslateError("cannot tokenize at %r" % src[pos:pos + 20])
        pos = m.end()
        if m.lastgroup in ("ws", "attr"):
            continue
        out.append(m.group(m.lastgroup))
    return out


def find_fn_body(src, impl_hint, fn_name):
    """Returns the text of the body (without the outer braces) of `fn fn_name`
    found after the first occurrence of impl_hint."""
    start = 0
    if impl_hint:
        start = src.find(impl_hint)
        if start < 0:
            raise TranslateError("anchor %r not found" % impl_hint)
    m = re.compile(r"\bfn\s+%s\b" % re.escape(fn_name)).search(src, start)
    if not m:
        raise TranslateError("fn %s not found" % fn_name)
    i = src.index("{", m.end())
    depth = 0
    j = i
    while True:
        c = src[j]
        if c == "{":
            depth += 1
        elif c == "}":
            depth -= 1
            if depth == 0:
                break
        j += 1
    return src[i + 1:j]


# --------------------------------------------------------------------------
# parser -> Lean text


class P:
    def __init__(self, toks, names, pats):
        self.t = toks
        self.i = 0
        self.names = names  # rust path text -> lean term
        self.pats = pats  # rust variant name -> lean pattern

    def peek(self, k=0):
        return self.t[self.i + k] if self.i + k < len(self.t) else None

    def eat(self, tok=None):
        cur = self.peek()
        if tok is not None and cur != tok:
            raise TranslateError("expected %r, got %r (at token %d)" % (tok, cur, self.i))
        self.i += 1
        return cur

    def done(self):
        return self.i >= len(self.t)

    # expr -----------------------------------------------------------
    def expr(self):
        return self.or_()

    def or_(self):
        l = self.and_()
        while self.peek() == "||":
            # `||` directly followed by an expression and preceded by `then_with(` is a closure; handled in postfix
            self.eat()
            r = self.and_()
            l = "(%s || %s)" % (l, r)
        return l

    def and_(self):
        l = self.not_()
        while self.peek() == "&&":
            self.eat()
            r = self.not_()
            l = "(%s && %s)" % (l, r)
        return l

    def not_(self):
        if self.peek() == "!":
            self.eat()
            return "(!%s)" % self.not_()
        return self.cmp_()

    def cmp_(self):
        l = self.postfix()
        op = self.peek()
        if op in (">", ">=", "<", "<=", "==", "!="):
            self.eat()
            r = self.postfix()
            if op in ("==", "!="):
                return "(%s %s %s)" % (l, op, r)
            lean = {">": ">", ">=": "≥", "<": "<", "<=": "≤"}[op]
            return "(decide (%s %s %s))" % (l, lean, r)
        return l

    def path_text(self):
        """greedy rust path: a.b.c, A::B, a.b(), a.b().c  (only nullary methods)."""
        parts = [self.eat()]
        while True:
            if self.peek() in (".", "::") and re.match(r"[A-Za-z_0-9]", self.peek(1) or ""):
                nxt = self.peek(1)
                if nxt in ("cmp", "then_with", "is_none", "is_some"):
                    break
                parts.append(self.eat())
                parts.append(self.eat())
                if self.peek() == "(" and self.peek(1) == ")":
                    self.eat()
                    self.eat()
                    parts.append("()")
            else:
                break
        return "".join(parts)

    def atom(self):
        t = self.peek()
        if t is None:
            raise TranslateError("unexpected end")
        if t == "(":
            self.eat()
            e = self.expr()
            self.eat(")")
            return e
        if t == "{":
            self.eat()
            # statements that are tracing macro invocations are skipped (feature-gated logging)
            while self.peek() == "tracing" and self.peek(1) == "::":
                depth = 0
                while True:
                    tk = self.eat()
                    if tk == "(":
                        depth += 1
                    elif tk == ")":
                        depth -= 1
                    elif tk == ";" and depth == 0:
                        break
            e = self.expr()
            self.eat("}")
            return e
        if t == "&":
            self.eat()
            return self.atom()
        if t == "match":
            return self.match_()
        if t == "matches!":
            self.eat()
            self.eat("(")
            scrut = self.lookup(self.path_text())
            self.eat(",")
            pats = self.pattern()
            self.eat(")")
            return "(match %s with | %s => true | _ => false)" % (scrut, " | ".join(pats))
        if t in ("true", "false"):
            self.eat()
            return t
        if re.match(r"\d", t):
            self.eat()
            return re.sub(r"(u8|u16|usize|_)", "", t)
        if re.match(r"[A-Za-z_]", t):
            return self.lookup(self.path_text())
        raise TranslateError("unexpected token %r" % t)

    def postfix(self):
        e = self.atom()
        while self.peek() == ".":
            m = self.peek(1)
            if m == "is_none":
                self.i += 2
                self.eat("(")
                self.eat(")")
                e = "(%s).isNone" % e
            elif m == "is_some":
                self.i += 2
                self.eat("(")
                self.eat(")")
                e = "(%s).isSome" % e
            elif m == "cmp":
                self.i += 2
                self.eat("(")
                r = self.expr()
                self.eat(")")
                e = "(compare %s %s)" % (e, r)
            elif m == "then_with":
                self.i += 2
                self.eat("(")
                self.eat("||")
                r = self.expr()
                self.eat(")")
                e = "((%s).then %s)" % (e, r)
            else:
                raise TranslateError("unsupported method .%s" % m)
        return e

    def lookup(self, path):
        if path in self.names:
            return self.names[path]
        raise TranslateError("unknown name %r" % path)

    def pattern(self):
        """alt-separated unit-like patterns; payloads ( .. ) / { .. } are skipped."""
        alts = []
        while True:
            parts = [self.eat()]
            while self.peek() == "::":
                self.eat()
                parts.append(self.eat())
            name = parts[-1]
            # skip payload
            if self.peek() in ("(", "{"):
                open_, close = self.peek(), {"(": ")", "{": "}"}[self.peek()]
                depth = 0
                while True:
                    t = self.eat()
                    if t == open_:
                        depth += 1
                    elif t == close:
                        depth -= 1
                        if depth == 0:
                            break
            if name == "_":
                alts.append("_")
            elif name in self.pats:
                alts.append(self.pats[name])
            else:
                raise TranslateError("unknown pattern %r" % name)
            if self.peek() == "|":
                self.eat()
                continue
            break
        return alts

    def match_(self):
        self.eat("match")
        scrut = self.postfix()
        self.eat("{")
        arms = []
        while self.peek() != "}":
            pats = self.pattern()
            self.eat("=>")
            body = self.expr()
            if self.peek() == ",":
                self.eat()
            arms.append("| %s => %s" % (" | ".join(pats), body))
        self.eat("}")
        return "(match %s with %s)" % (scrut, " ".join(arms))


def translate_body(body, names, pats, only_if_cond=False):
    toks = lex(body)
    if isinstance(only_if_cond, str):
        # the initialiser of `let <name> = <expr>;`
        name = only_if_cond
        for i in range(len(toks) - 2):
            if toks[i] == "let" and toks[i + 1] == name and toks[i + 2] == "=":
                p = P(toks[i + 3:], names, pats)
                e = p.expr()
                if p.peek() != ";":
                    raise TranslateError("expected `;` after the initialiser of %s" % name)
                return e
        raise TranslateError("`let %s =` not found" % name)
    if only_if_cond:
        # take the condition of the first `if` at top level
        if "if" not in toks:
            raise TranslateError("no `if` found")
        i = toks.index("if")
        depth = 0
        j = i + 1
        while True:
            if toks[j] == "(":
                depth += 1
            elif toks[j] == ")":
                depth -= 1
            elif toks[j] == "{" and depth == 0:
                break
            j += 1
        toks = toks[i + 1:j]
    p = P(toks, names, pats)
    e = p.expr()
    if not p.done():
        raise TranslateError("trailing tokens %r" % p.t[p.i:p.i + 6])
    return e


ST_PATS = {"Alive": ".alive", "Suspect": ".suspect", "Down": ".down"}
MSG_PATS = {
    "Ping": ".ping _", "Ack": ".ack _", "PingReq": ".pingReq _ _", "IndirectPing": ".indirectPing _ _",
    "IndirectAck": ".indirectAck _ _", "ForwardedAck": ".forwardedAck _ _", "Announce": ".announce",
    "Feed": ".feed", "Gossip": ".gossip", "Broadcast": ".broadcast", "TurnUndead": ".turnUndead",
}
TIMER_PATS = {
    "SendIndirectProbe": ".indirect _ _", "ProbeRandomMember": ".probe _", "ChangeSuspectToDown": ".s2d _ _ _",
    "PeriodicAnnounce": ".pa _", "PeriodicGossip": ".pg _", "RemoveDown": ".rm _", "PeriodicAnnounceDown": ".pad _",
}
ORD_PATS = {"Greater": ".gt", "Less": ".lt", "Equal": ".eq"}

# (lean name, signature, file, anchor, fn, names, pats, only_if_cond)
SPECS = [
    ("isActive", "(selfSt : St) : Bool", "member.rs", "impl<T> Member<T>", "is_active",
     {"self.state": "selfSt"}, ST_PATS, False),
    ("canChange", "(selfSt : St) (selfInc : Nat) (otherInc : Nat) (other : St) : Bool", "member.rs",
     "impl<T> Member<T>", "can_change",
     {"self.state": "selfSt", "self.incarnation": "selfInc", "other_incarnation": "otherInc", "other": "other"},
     ST_PATS, False),
    ("allowCustom", "(self : Msg) : Bool", "payload.rs", "impl<T> Message<T>", "allow_custom_broadcasts",
     {"self": "self"}, MSG_PATS, False),
    ("needsPiggyback", "(self : Msg) : Bool", "payload.rs", "impl<T> Message<T>", "needs_piggyback",
     {"self": "self"}, MSG_PATS, False),
    ("piggybackOnlyActive", "(self : Msg) : Bool", "payload.rs", "impl<T> Message<T>", "piggyback_only_active",
     {"self": "self"}, MSG_PATS, False),
    ("timerSeq", "(self : Timer) : Nat", "runtime.rs", "impl<T> Timer<T>", "seq",
     {"self": "self"}, TIMER_PATS, False),
    ("probeSucceeded", "(directAckOk : Bool) (indirectAckCount : Nat) : Bool", "probe.rs", "impl<T: Clone + PartialEq> Probe<T>",
     "succeeded", {"self.direct_ack_ok": "directAckOk", "self.indirect_ack_count": "indirectAckCount"}, {}, False),
    ("probeValidate", "(direct : Option Member) (reached : Bool) : Bool", "probe.rs", "impl<T: Clone + PartialEq> Probe<T>",
     "validate", {"self.direct": "direct", "self.reached_indirect_probe_stage": "reached"}, {}, False),
    ("entryCmp", "(tx1 len1 tx2 len2 : Nat) : Ordering", "broadcast.rs", "impl<T> Ord for Entry<T>", "cmp",
     {"self.remaining_tx": "tx1", "other.remaining_tx": "tx2", "self.data.len()": "len1", "other.data.len()": "len2"},
     {}, False),
    ("addrInvalidates", "(self0 other0 : Nat) : Bool", "lib.rs", "impl<T: PartialEq> Invalidates for Addr<T>", "invalidates",
     {"self.0": "self0", "other.0": "other0"}, {}, False),
    ("setConfigInvalid", "(old new : Config) : Bool", "lib.rs", "pub fn set_config", "set_config",
     {"self.config.probe_period": "old.probePeriod", "config.probe_period": "new.probePeriod",
      "self.config.probe_rtt": "old.probeRtt", "config.probe_rtt": "new.probeRtt",
      "self.config.periodic_announce": "old.pa", "config.periodic_announce": "new.pa",
      "self.config.periodic_announce_to_down_members": "old.pad",
      "config.periodic_announce_to_down_members": "new.pad",
      "self.config.periodic_gossip": "old.pg", "config.periodic_gossip": "new.pg"}, {}, True),
    ("increaseIncarnation", "(selfInc inc : Nat) : Bool", "lib.rs", "fn handle_self_update", "handle_self_update",
     {"self.incarnation": "selfInc", "incarnation": "inc"}, ORD_PATS, "increase_incarnation"),
    ("acceptPayload", "(self dst : Id) (msg : Msg) : Bool", "lib.rs", "fn accept_payload", "accept_payload",
     {"header.dst": "dst", "self.identity": "self", "header.message": "msg", "Message::Announce": "Msg.announce",
      "self.identity.addr()": "self.addr", "header.dst.addr()": "dst.addr"}, {}, False),
]

# anchored constants: (lean name, file, regex with one group, description)
CONSTS = [
    ("fillMaxItems", "lib.rs", r"self\.updates\.fill\(&mut buf,\s*(u16::MAX)\.into\(\)\)", "max items per updates section"),
    ("piggybackMinSpace", "lib.rs", r"needs_piggyback\(\)\s*&&\s*buf\.remaining_mut\(\)\s*>\s*(\d+)", "space needed after header to open a member section"),
    ("feedMinEstimate", "lib.rs", r"usize::max\(remaining / identity_len,\s*(\d+)\)", "lower bound of the feed estimate"),
    ("feedIdDiv", "lib.rs", r"let identity_len = \{ self\.config\.max_packet_size\.get\(\)\.saturating_sub\(remaining\) / (\d+) \};", "the feed estimate takes the bytes written so far divided by this as the length of an identity"),
    ("trailingByteBad", "lib.rs", r"if remaining == (\d+) \|\| \(header\.message == Message::Announce && remaining > 0\)", "a single trailing byte is malformed"),
    ("sectionMinBytes", "lib.rs", r"if remaining >= (\d+) && header\.message != Message::Broadcast", "bytes needed to read the count"),
    ("customMinBytes", "lib.rs", r"if !data\.is_empty\(\) && data\.len\(\) < (\d+)", "minimum size of a custom tail"),
    ("customLoopBytes", "lib.rs", r"while data\.remaining\(\) > (\d+) \{", "loop guard of handle_custom_broadcasts"),
    ("lenPrefix", "broadcast.rs", r"if buffer\.remaining_mut\(\) >= node\.data\.len\(\) \+ (\d+)", "length prefix size"),
]

# constants the proofs see through (generated as `abbrev`)
REDUCIBLE_CONSTS = {"feedIdDiv"}

# counter arithmetic: (lean name, file, fn, regex with one group = the method, width, description)
BUMPS = [
    ("tokenBumpReset", "lib.rs", "reset", r"self\.timer_token\s*=\s*self\.timer_token\.(\w+)\(1\)", 8, "timer token bump in reset"),
    ("tokenBumpDisconnected", "lib.rs", "become_disconnected", r"self\.timer_token\s*=\s*self\.timer_token\.(\w+)\(1\)", 8, "timer token bump in become_disconnected"),
    ("tokenBumpUndead", "lib.rs", "become_undead", r"self\.timer_token\s*=\s*self\.timer_token\.(\w+)\(1\)", 8, "timer token bump in become_undead"),
    ("probeNumberBump", "probe.rs", "start", r"self\.probe_number\s*=\s*self\.probe_number\.(\w+)\(1\)", 8, "probe number bump in Probe::start"),
    ("incBump", "lib.rs", "handle_self_update", r"self\.incarnation\s*=\s*incarnation\.(\w+)\(1\)", 16, "incarnation bump when refuting"),
]
BUMP_FNS = {("wrapping_add", 8): "wrapAdd8", ("saturating_add", 8): "satAdd8", ("wrapping_add", 16): "wrapAdd16",
            ("saturating_add", 16): "satAdd16"}


def main():
    out_path = sys.argv[1] if len(sys.argv) > 1 else "/verif/lean/FocaModel/Gen/Tables.lean"
    lines = [
        "-- GENERATED by /verif/tools/extract.py from %s/src — do not edit." % REPO,
        "import FocaModel.Basic",
        "set_option linter.unusedVariables false",
        "namespace Foca.Gen",
        "",
    ]
    failed = []
    report = {}
    for (lname, sig, fname, anchor, fn, names, pats, only_if) in SPECS:
        try:
            src = open(os.path.join(REPO, "src", fname)).read()
            # strip the test module so that anchors are searched in non-test code only
            cut = src.find("#[cfg(test)]\nmod tests")
            if cut > 0:
                src = src[:cut]
            body = find_fn_body(src, anchor, fn)
            lean = translate_body(body, names, pats, only_if)
            lines.append("/-- from `%s::%s` -/" % (fname, fn))
            lines.append("def %s %s :=\n  %s\n" % (lname, sig, lean))
            report[lname] = "ok"
        except (TranslateError, ValueError, IndexError, OSError) as e:
            failed.append((lname, fname, fn, str(e)))
            report[lname] = "FAILED: %s" % e
    for (lname, fname, rx, desc) in CONSTS:
        try:
            src = open(os.path.join(REPO, "src", fname)).read()
            # the anchors are written with single spaces; any amount of white space (a reformatted source) matches
            m = re.search(rx.replace(" ", r"\s*"), src)
            if not m:
                raise TranslateError("anchor for %s not found" % lname)
            v = m.group(1)
            v = {"u16::MAX": "65535"}.get(v, v)
            if not re.fullmatch(r"\d+", v):
                raise TranslateError("constant %s is not a literal: %r" % (lname, v))
            lines.append("/-- %s (%s) -/" % (desc, fname))
            lines.append("%s %s : Nat := %s\n" % ("abbrev" if lname in REDUCIBLE_CONSTS else "def", lname, v))
            report[lname] = v
        except (TranslateError, OSError) as e:
            failed.append((lname, fname, "<const>", str(e)))
            report[lname] = "FAILED: %s" % e
    for (lname, fname, fn, rx, width, desc) in BUMPS:
        try:
            src = open(os.path.join(REPO, "src", fname)).read()
            cut = src.find("#[cfg(test)]\nmod tests")
            if cut > 0:
                src = src[:cut]
            body = find_fn_body(src, "", fn)
            ms = re.findall(rx, body)
            if len(ms) != 1:
                raise TranslateError("expected exactly one bump in %s, found %d" % (fn, len(ms)))
            lean_fn = BUMP_FNS.get((ms[0], width))
            if lean_fn is None:
                raise TranslateError("unknown arithmetic %s (u%d) in %s" % (ms[0], width, fn))
            lines.append("/-- %s (%s::%s): `%s(1)` -/" % (desc, fname, fn, ms[0]))
            lines.append("abbrev %s (n : Nat) : Nat := %s n\n" % (lname, lean_fn))
            report[lname] = ms[0]
        except (TranslateError, ValueError, IndexError, OSError) as e:
            failed.append((lname, fname, fn, str(e)))
            report[lname] = "FAILED: %s" % e
    lines.append("end Foca.Gen")
    text = "\n".join(lines) + "\n"
    if failed:
        for f in failed:
            sys.stderr.write("TRANSLATOR-FAILED %s (%s::%s): %s\n" % f)
        print(json.dumps({"ok": False, "failed": [f[0] for f in failed], "report": report}))
        sys.exit(2)
    old = None
    if os.path.exists(out_path):
        old = open(out_path).read()
    if old != text:
        os.makedirs(os.path.dirname(out_path), exist_ok=True)
        open(out_path, "w").write(text)
    print(json.dumps({"ok": True, "changed": old != text, "report": report}))


if __name__ == "__main__":
    main()
