#!/usr/bin/env python3
"""reeval_seeded.py [ids...]: re-run the quick check of every seeded change with the machinery as it is now and
record the outcome in its meta.json (checks_run, detected_by, re_evaluated_at_commit)."""
import json, os, subprocess, sys
ROOT = "/verif"
ids = sys.argv[1:] or sorted(os.listdir(ROOT + "/seeded"))
head = subprocess.run(["git", "-C", ROOT, "rev-parse", "--short", "HEAD"], capture_output=True, text=True).stdout.strip()
env = dict(os.environ, VERIF_EVIDENCE_DIR="/tmp/verif-mutant-evidence")
missed = []
for i in ids:
    d = "%s/seeded/%s" % (ROOT, i)
    mp = d + "/meta.json"
    if not os.path.exists(mp) or not os.path.exists(d + "/patch.diff"):
        continue
    meta = json.load(open(mp))
    prop = meta.get("property")
    if subprocess.run(["git", "-C", "/repo", "status", "--short", "--untracked-files=no"], capture_output=True, text=True).stdout.strip():
        print("!! /repo not clean, stopping"); break
    r = subprocess.run(["git", "-C", "/repo", "apply", d + "/patch.diff"], capture_output=True, text=True)
    if r.returncode != 0:
        r = subprocess.run(["git", "-C", "/repo", "apply", "-R", "--check", d + "/patch.diff"], capture_output=True, text=True)
        print(i, "patch does not apply:", r.stderr[:100]); continue
    try:
        out = subprocess.run(["./check", prop, "--tier", "quick"], cwd=ROOT, capture_output=True, text=True, env=env).stdout
    finally:
        subprocess.run(["git", "-C", "/repo", "checkout", "--", "."])
    lines = [l for l in out.strip().split("\n") if l.startswith(("VIOLATION", "PASS", "FAIL", "KNOWN"))]
    det = any(l.startswith("VIOLATION") for l in lines)
    meta["checks_run"] = {prop: lines}
    meta["detected_by"] = [prop] if det else []
    meta["re_evaluated_at_commit"] = head
    json.dump(meta, open(mp, "w"), indent=1)
    print(i, "DETECTED" if det else "MISSED", "|", (lines[0] if lines else "")[:140], flush=True)
    if not det:
        missed.append(i)
print("missed:", missed)
