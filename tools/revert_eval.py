#!/usr/bin/env python3
"""For every fixed finding: revert its fix: commit in /repo's working tree, run the property's quick check, restore.
Stores the revert as a seeded change under /verif/seeded/revert-<Fx>/."""
import json, os, subprocess
kf = json.load(open('/verif/known_findings.json'))['findings']
for k in kf:
    if k.get('status') != 'fixed':
        continue
    c = k['commit']
    patch = subprocess.run(['git', '-C', '/repo', 'diff', c, c + '~1', '--', 'src'], capture_output=True, text=True).stdout
    d = '/verif/seeded/revert-%s' % k['id']
    os.makedirs(d, exist_ok=True)
    open(d + '/patch.diff', 'w').write(patch)
    r = subprocess.run(['git', '-C', '/repo', 'apply', d + '/patch.diff'], capture_output=True, text=True)
    if r.returncode != 0:
        print(k['id'], 'revert does not apply:', r.stderr[:200]); continue
    try:
        t = subprocess.run(['cargo', 'test', '--offline'], cwd='/repo', capture_output=True, text=True).stdout
        suite = [l for l in t.split('\n') if l.startswith('test result')][:1]
        out = subprocess.run(['./check', k['property'], '--tier', 'quick'], cwd='/verif', capture_output=True, text=True, env=dict(__import__('os').environ, VERIF_EVIDENCE_DIR='/tmp/verif-mutant-evidence')).stdout
        lines = [l for l in out.strip().split('\n') if l.startswith(('VIOLATION', 'PASS', 'FAIL', 'KNOWN'))]
    finally:
        subprocess.run(['git', '-C', '/repo', 'checkout', '--', '.'])
    print(k['id'], k['property'], suite, '|', ' || '.join(l[:200] for l in lines))
    json.dump({"property": k['property'], "source": "reverse of the fix: commit %s (the defect as it was on the pinned tree)" % c,
               "description": k['what'], "needs_to_manifest": "see corpus witness %s" % k.get('witness'),
               "confirmation": {"ran": "cargo test --offline with the revert applied", "output": suite},
               "checks_run": {k['property']: lines}, "detected_by": [k['property']] if any(l.startswith('VIOLATION') for l in lines) else []},
              open(d + '/meta.json', 'w'), indent=1)
