#!/bin/bash
# run_mutant.sh <patch.diff> <prop> [<prop>...] : applies the patch to /repo, runs the quick checks, reverts.
P=$1; shift
git -C /repo apply "$P" || { echo "patch does not apply to /repo"; exit 2; }
for prop in "$@"; do
  out=$(cd /verif && VERIF_EVIDENCE_DIR=/tmp/verif-mutant-evidence ./check $prop --tier quick 2>&1 | tail -3)
  echo "--- $prop: $out"
done
git -C /repo checkout -- .
git -C /repo status --short
