#!/usr/bin/env python3
"""seed_eval.py <PID> [extra props...]: confirm a sub-agent's mutants in its scratch worktree, run our checks against each, store under /verif/seeded/."""
import json, os, re, shutil, subprocess, sys
pid = sys.argv[1]
extra = sys.argv[2:]
PREFIX = os.environ.get("SEED_PREFIX", "mut")
OFFSET = int(os.environ.get("SEED_OFFSET", "0"))
W = "/tmp/%s-%s" % (PREFIX, pid)
VROOT = os.environ.get("VERIF_ROOT", "/verif")
REPO = os.environ.get("FOCA_REPO", "/repo")
for n in (1, 2, 3):
    patch = "%s/out/patch%d.diff" % (W, n)
    if not os.path.exists(patch):
        continue
    conf = subprocess.run(["/verif/tools/confirm_mutant.sh", W, str(n)], capture_output=True, text=True).stdout
    ok = ("suite_with_patch: test result: ok. 79 passed" in conf and "demo_with_patch: test result: FAILED" in conf
          and "demo_without_patch: test result: ok" in conf)
    print("== %s #%d confirmed=%s" % (pid, n, ok))
    if not ok:
        print(conf)
        continue
    results = {}
    r = subprocess.run(["git", "-C", REPO, "apply", patch], capture_output=True, text=True)
    if r.returncode != 0:
        print("patch does not apply to /repo:", r.stderr)
        continue
    try:
        for prop in [pid] + extra:
            out = subprocess.run(["./check", prop, "--tier", "quick"], cwd=VROOT, capture_output=True, text=True, env=dict(__import__('os').environ, VERIF_EVIDENCE_DIR='/tmp/verif-mutant-evidence')).stdout
            lines = [l for l in out.strip().split("\n") if l.startswith(("VIOLATION", "PASS", "FAIL", "KNOWN"))]
            results[prop] = lines
            print("   ", prop, "|", " || ".join(l[:260] for l in lines))
    finally:
        subprocess.run(["git", "-C", REPO, "checkout", "--", "."])
    d = VROOT + "/seeded/%s-%d" % (pid, n + OFFSET)
    os.makedirs(d, exist_ok=True)
    shutil.copy(patch, d + "/patch.diff")
    shutil.copy("%s/out/demo%d.rs" % (W, n), d + "/demo.rs")
    meta_txt = open("%s/out/meta%d.txt" % (W, n)).read()
    detected = {p: any(l.startswith("VIOLATION") for l in ls) for p, ls in results.items()}
    json.dump({"property": pid, "source": "independent sub-agent given only the property text and a scratch worktree",
               "description": meta_txt,
               "needs_to_manifest": [l for l in meta_txt.split("\n") if l.lower().startswith("needs")][:1],
               "confirmation": {"ran": "tools/confirm_mutant.sh %s %d (cargo test --offline with the patch: 79 pass; demo fails with the patch, passes without)" % (W, n), "output": conf},
               "checks_run": results, "detected_by": [p for p, v in detected.items() if v]},
              open(d + "/meta.json", "w"), indent=1)
print(subprocess.run(["git", "-C", REPO, "status", "--short"], capture_output=True, text=True).stdout)
