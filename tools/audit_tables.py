#!/usr/bin/env python3
"""audit_tables.py <scratch copy of /verif/lean (with .lake)>: mutates every definition the translator generates
(Gen/Tables.lean), one at a time, rebuilds, and lists per mutation which theorem files stop building and which
properties have such a file in their import closure. A generated definition whose plausible change breaks no theorem
of a property that semantically depends on it is a blind spot: the model follows the source, so the correspondence
stays silent (DESIGN.md G.13). Not part of the registered checks; run on a copy:
    rsync -a /verif/lean/ /tmp/leanaudit/ && python3 tools/audit_tables.py /tmp/leanaudit"""
import subprocess, re, os, json, glob, sys
ROOT=sys.argv[1] if len(sys.argv) > 1 else '/tmp/leanaudit'
T=ROOT+'/FocaModel/Gen/Tables.lean'
orig=open(T).read()
muts=[
 ("isActive: suspect inactive", "| .alive | .suspect => true | .down => false)", "| .alive => true | .suspect | .down => false)"),
 ("canChange: alive/alive >=", "| .alive => (match other with | .alive => (decide (otherInc > selfInc))", "| .alive => (match other with | .alive => (decide (otherInc ≥ selfInc))"),
 ("canChange: suspect/.. >=", "| .suspect => (match other with | .alive | .suspect => (decide (otherInc > selfInc))", "| .suspect => (match other with | .alive | .suspect => (decide (otherInc ≥ selfInc))"),
 ("canChange: down not final", "| .down => true) | .down => false)", "| .down => true) | .down => (decide (otherInc > selfInc)))"),
 ("allowCustom: turnUndead allowed", "(!(match self with | .announce | .turnUndead => true | _ => false))", "(!(match self with | .announce => true | _ => false))"),
 ("needsPiggyback: broadcast piggybacks", "| .announce | .turnUndead | .broadcast => true | _ => false))", "| .announce | .turnUndead => true | _ => false))"),
 ("piggybackOnlyActive: gossip", "(match self with | .feed => true | _ => false)", "(match self with | .gossip => true | _ => false)"),
 ("timerSeq: swap", "| .indirect _ _ => 0 | .probe _ => 1", "| .indirect _ _ => 1 | .probe _ => 0"),
 ("probeSucceeded: and", "(directAckOk || (decide (indirectAckCount > 0)))", "(directAckOk && (decide (indirectAckCount > 0)))"),
 ("probeValidate: and", "((direct).isNone || reached)", "((direct).isNone && reached)"),
 ("entryCmp: len first", "(((compare tx1 tx2)).then (compare len1 len2))", "(((compare len1 len2)).then (compare tx1 tx2))"),
 ("addrInvalidates: !=", "(self0 == other0)", "(self0 != other0)"),
 ("setConfigInvalid: rtt may change", "((old.probePeriod != new.probePeriod) || (old.probeRtt != new.probeRtt))", "((old.probePeriod != new.probePeriod) || false)"),
 ("increaseIncarnation: eq false", "| .lt => true | .eq => true)", "| .lt => true | .eq => false)"),
 ("acceptPayload: no announce-by-address", "((dst == self) || ((msg == Msg.announce) && (self.addr == dst.addr)))", "((dst == self) || false)"),
 ("fillMaxItems 65534", "def fillMaxItems : Nat := 65535", "def fillMaxItems : Nat := 65534"),
 ("piggybackMinSpace 3", "def piggybackMinSpace : Nat := 2", "def piggybackMinSpace : Nat := 3"),
 ("feedMinEstimate 4", "def feedMinEstimate : Nat := 5", "def feedMinEstimate : Nat := 4"),
 ("feedIdDiv 3", "abbrev feedIdDiv : Nat := 2", "abbrev feedIdDiv : Nat := 3"),
 ("trailingByteBad 0", "def trailingByteBad : Nat := 1", "def trailingByteBad : Nat := 0"),
 ("sectionMinBytes 3", "def sectionMinBytes : Nat := 2", "def sectionMinBytes : Nat := 3"),
 ("customMinBytes 2", "def customMinBytes : Nat := 3", "def customMinBytes : Nat := 2"),
 ("customLoopBytes 3", "def customLoopBytes : Nat := 2", "def customLoopBytes : Nat := 3"),
 ("lenPrefix 1", "def lenPrefix : Nat := 2", "def lenPrefix : Nat := 1"),
 ("tokenBumpReset sat", "abbrev tokenBumpReset (n : Nat) : Nat := wrapAdd8 n", "abbrev tokenBumpReset (n : Nat) : Nat := satAdd8 n"),
 ("tokenBumpDisconnected sat", "abbrev tokenBumpDisconnected (n : Nat) : Nat := wrapAdd8 n", "abbrev tokenBumpDisconnected (n : Nat) : Nat := satAdd8 n"),
 ("tokenBumpUndead sat", "abbrev tokenBumpUndead (n : Nat) : Nat := wrapAdd8 n", "abbrev tokenBumpUndead (n : Nat) : Nat := satAdd8 n"),
 ("probeNumberBump sat", "abbrev probeNumberBump (n : Nat) : Nat := wrapAdd8 n", "abbrev probeNumberBump (n : Nat) : Nat := satAdd8 n"),
 ("incBump wrap", "abbrev incBump (n : Nat) : Nat := satAdd16 n", "abbrev incBump (n : Nat) : Nat := wrapAdd16 n"),
]
# import graph
imports={}
for f in glob.glob(ROOT+'/FocaModel/**/*.lean', recursive=True):
    mod=f[len(ROOT)+1:-5].replace('/','.')
    imports[mod]=re.findall(r'^import (FocaModel\.[\w\.]+)', open(f).read(), re.M)
def closure(m, seen=None):
    seen=seen if seen is not None else set()
    if m in seen: return seen
    seen.add(m)
    for d in imports.get(m,[]): closure(d, seen)
    return seen
props={}
for i in range(1,21):
    pid='C%02d'%i
    mods=[m for m in imports if re.match(r'FocaModel\.Props\.%s[HS]?$'%pid, m)]
    cl=set()
    for m in mods: cl|=closure(m)
    props[pid]=cl
res={}
for name,old,new in muts:
    assert old in orig, name
    open(T,'w').write(orig.replace(old,new))
    out=subprocess.run(['lake','build'],cwd=ROOT,capture_output=True,text=True).stdout
    failed=set(re.findall(r'error: (FocaModel/[\w/]+)\.lean', out))
    failedm={f.replace('/','.') for f in failed}
    hit=[p for p,cl in props.items() if cl & failedm]
    res[name]={'failed':sorted(failedm),'props':hit}
    print(name,'->',hit, '| files:', sorted(x.split('.')[-1] for x in failedm), flush=True)
open(T,'w').write(orig)
json.dump(res,open(os.path.join(ROOT,'audit.json'),'w'),indent=1)
